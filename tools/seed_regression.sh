#!/bin/bash
# Applies every kept seeded change to /repo in turn, runs the quick check of
# the property it targets, and undoes it. Writes one line per seed to
# /verif/.target/logs/seed-regression.txt:  <seed> <property> detected|MISSED  <first verdict lines>
cd /verif
out=/verif/.target/logs/seed-regression.txt
mkdir -p /verif/.target/logs
: > $out
if [ -n "$(git -C /repo status --short)" ]; then echo "/repo is not clean" >&2; exit 2; fi
for d in seeded/C*; do
  id=$(basename $d)
  prop=$(python3 -c "import json;m=json.load(open('$d/meta.json'));print(m.get('detected_by_check_of_property',m['property']))")
  if python3 -c "import json,sys;sys.exit(0 if 'overtaken_by_repair' in json.load(open('$d/meta.json')) else 1)"; then
    # the property holds again with this change applied (see its meta.json):
    # the check must say OK
    git -C /repo apply /verif/$d/patch.diff 2>/dev/null
    res=$(./check $prop --tier quick 2>&1 | grep -E "^(VIOLATION|OK|MACHINERY)" | head -1 | cut -c1-80)
    git -C /repo checkout -- .
    echo "$id $prop overtaken-by-a-repair ($res)" >> $out; continue
  fi
  if ! git -C /repo apply /verif/$d/patch.diff 2>/dev/null; then echo "$id $prop DOES-NOT-APPLY" >> $out; continue; fi
  res=$(./check $prop --tier quick 2>&1 | grep -E "^(VIOLATION|OK|MACHINERY)" | head -1 | cut -c1-80)
  git -C /repo checkout -- .
  case "$res" in
    VIOLATION*) echo "$id $prop detected" >> $out ;;
    *) echo "$id $prop MISSED ($res)" >> $out ;;
  esac
done
git -C /repo status --short >> $out
echo DONE >> $out
