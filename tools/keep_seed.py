#!/usr/bin/env python3
"""keep_seed.py <id> <prop> <inbox-subdir> <patch> <demo> <needs> <detected-by> [extra files...]
Files a verified seeded change under /verif/seeded/<id>/ (patch.diff, demo, meta.json)."""
import sys, os, shutil, json, re
sid, prop, sub, patch, demo, needs, detected = sys.argv[1:8]
extra = sys.argv[8:]
inbox = f"/verif/seeded/_inbox/{sub}"
dst = f"/verif/seeded/{sid}"
os.makedirs(dst, exist_ok=True)
shutil.copy(f"{inbox}/{patch}", f"{dst}/patch.diff")
shutil.copy(f"{inbox}/{demo}", f"{dst}/{demo}")
for e in extra:
    shutil.copy(f"{inbox}/{e}", f"{dst}/{e}")
if os.path.exists(f"{inbox}/notes.md"):
    shutil.copy(f"{inbox}/notes.md", f"{dst}/notes.md")
log = open(f"{inbox}/verify-{patch}.log").read()
summary = [l for l in log.splitlines() if l.startswith("SUMMARY")][-1]
kv = dict(re.findall(r"(\w+)=(\S+)", summary))
files = re.findall(r"^\+\+\+ b/(\S+)", open(f"{dst}/patch.diff").read(), re.M)
meta = {
  "id": sid, "property": prop, "files_touched": files,
  "needs_to_manifest": needs,
  "origin": "independent sub-agent given only the property text and a scratch worktree",
  "confirmed_in_scratch_worktree": {
     "what_was_run": f"tools/verify_seed.sh: demo without patch; git apply; cargo test --workspace --no-fail-fast --offline; demo with patch",
     "demo_exit_without_patch": int(kv["demo_without"]), "patch_applies": kv["apply"] == "0",
     "test_suite_exit_with_patch": int(kv["suite_exit"]), "failed_tests_with_patch": int(kv["suite_failed_tests"]),
     "demo_exit_with_patch": int(kv["demo_with"]),
  },
  "detected_by": detected,
}
json.dump(meta, open(f"{dst}/meta.json", "w"), indent=1)
print("kept", sid, kv)
