#!/bin/bash
# usage: verify_seed.sh <name> <inbox-dir> <patch-file-name> <demo-file-name>
# Confirms in a scratch worktree that (1) the demo passes without the patch,
# (2) the patch applies and the repository's test suite still passes with it,
# (3) the demo fails with the patch. Writes <inbox-dir>/verify-<patch>.log and
# prints a one-line summary. The worktree and its build output are removed.
name="$1"; inbox="$2"; patch="$3"; demo="$4"
wt="/tmp/vs-$name"
log="$inbox/verify-$patch.log"
exec > "$log" 2>&1
set -x
git -C /repo worktree remove --force "$wt" 2>/dev/null
git -C /repo worktree add -q --detach "$wt" HEAD || exit 9
mkdir -p "$wt/SEED" && cp -r "$inbox"/* "$wt/SEED/" 
cd "$wt"
# demos refer to /tmp/seed-<prop>; point them at this worktree
prop=$(echo "$name" | cut -d- -f1)
sed -i "s#/tmp/seed9-$prop#$wt#g; s#/tmp/tmp-seed9-$prop#/tmp/tmp-vs-$prop#g; s#/tmp/seed8-$prop#$wt#g; s#/tmp/tmp-seed8-$prop#/tmp/tmp-vs-$prop#g; s#/tmp/seed7-$prop#$wt#g; s#/tmp/tmp-seed7-$prop#/tmp/tmp-vs-$prop#g; s#/tmp/seed6-$prop#$wt#g; s#/tmp/seed5-$prop#$wt#g; s#/tmp/seed4-$prop#$wt#g; s#/tmp/seed3-$prop#$wt#g; s#/tmp/seed2-$prop#$wt#g; s#/tmp/seed-$prop#$wt#g" SEED/*.sh SEED/*.rs 2>/dev/null
mkdir -p "/tmp/tmp-vs-$prop"
export CARGO_TARGET_DIR="$wt/target" CARGO_NET_OFFLINE=true TMPDIR="/tmp/tmp-vs-$prop"
mkdir -p "$wt/target"
bash "SEED/$demo" < /dev/null; d0=$?
git apply "SEED/$patch"; ap=$?
cargo test --workspace --no-fail-fast --offline > "$wt/suite.log" 2>&1; st=$?
fails=$(grep -c "^test .* FAILED" "$wt/suite.log")
tail -5 "$wt/suite.log"
bash "SEED/$demo" < /dev/null; d1=$?
git checkout -- . 
set +x
echo "SUMMARY name=$name patch=$patch demo_without=$d0 apply=$ap suite_exit=$st suite_failed_tests=$fails demo_with=$d1"
cd /
git -C /repo worktree remove --force "$wt"
rm -rf "/tmp/tmp-vs-$prop"
