#!/usr/bin/env python3
"""Regenerates /verif/MANIFEST.json from the table below (source of truth for
the interface file; run after adding a check)."""
import json, subprocess

CHECKS = {
 "C01": dict(cat="model_checking", ref="DESIGN.md §3-E2, §4 C01",
  text="Three exhaustive layers. (1) Explicit-state product automata per (pattern, flag set), over ALL lines: the pattern as written (harness-built from the flag documentation: -i/-S, -w, -x, -F, --crlf, --null-data, several -e) vs the matcher's final HIR; and the final HIR run inside a buffer (fast path) vs on the stripped line (slow path); witnesses are confirmed on the real Searcher before they count. (2) Bounded exhaustive enumeration on the real Searcher: every byte string over {a,b,-,\\n,\\r,0xFF,é} up to length 4/5 x 61 patterns x 7 option sets x invert x strategies: fast path == slow path == per-line reference regex. (3) the rg command line: all small flag subsets x patterns x files against the same reference.",
  note="Trusted: regex-syntax / regex-automata as the meaning of patterns. Under --crlf 'as written' is judged on lines without \\r (documented: the matcher never matches \\r), fast==slow on all lines. Known finding (open, regex engine): Unicode word boundaries next to invalid UTF-8.",
  tech="explicit-state model checking of product automata (all lines per pattern) + bounded exhaustive enumeration of inputs x patterns x flags on the real searcher and CLI"),
 "C02": dict(cat="exploration", ref="DESIGN.md §4 C02",
  text="Bounded exhaustive differential enumeration: for every input up to a length bound, every searcher configuration and matcher line path, the Sink event stream of search_slice is compared with search_reader under EVERY history (roll-buffer capacities 1,2,3,5,8 via the hook x every composition of the input length as read sizes, heap limits 1..len+2, Interrupted at every read index on the multi-line reader path) and with search_path (mmap / no mmap) and search_file.",
  note="Trusted: search_slice as the reference (C03 checks it against the grep model). Not covered: inputs above the length bound, capacities above 8.",
  tech="bounded exhaustive enumeration of inputs x configurations x read/buffer histories, differential oracle (small-scope model checking)"),
 "C03": dict(cat="exploration", ref="DESIGN.md §4 C03, Appendix A.1",
  text="Bounded exhaustive enumeration: every input over {m,x,terminator[,\\r]} up to a length bound (plus all match-flag vectors of one-byte lines) x every searcher configuration (context sizes, invert, passthru, stop-on-nonmatch, line numbers, LF/CRLF/NUL, multi-line requested) x strategy (slice, incremental reader with tiny roll buffers and fragmented reads) x matcher line path (fast, candidate, slow, grep-regex); the full Sink event stream must equal an executable grep reference model.",
  note="Trusted: the reference model (60 lines, DESIGN.md A.1). Not covered: inputs above the length bound, context sizes above 2 (quick) / 3 (thorough).",
  tech="bounded exhaustive enumeration of inputs x configurations x strategies against a reference model (small-scope model checking)"),
 "C04": dict(cat="exploration", ref="DESIGN.md §4 C04",
  text="Bounded exhaustive enumeration with git itself as the oracle: every ignore-file content over a 13-token gitignore grammar (every single line up to 4/5 tokens; ordered pairs of lines; a root file with a nested a/.gitignore; case-insensitive variants; trailing blanks, escaped blanks, comments) on a fixed 144-file tree (names with dots, dashes, upper case, glob-like names); the set of files the REAL walker yields (only .gitignore active) must equal `git ls-files -o --exclude-standard` in a scratch repository.",
  note="Trusted: git 2.39 as the specification. Skipped (no specification): lines with '//', a backslash before '/', and in path patterns a '**' that is not a whole component or a run of >= 3 stars (git contradicts its own documentation there). Known finding (open): negated classes cross '/', attributed by a counterfactual run of the real walker on rewritten classes.",
  tech="bounded exhaustive enumeration of ignore-file contents against an executable specification (git)"),
 "C05": dict(cat="exploration", ref="DESIGN.md §4 C05, Appendix A.3",
  text="Bounded exhaustive enumeration on the real `rg --files`: a tree P/R/S (above the root, the root, a subdirectory) with file, hidden-file and directory probes; every single rule and every conflicting pair of rules (thorough: half of all triples on the file probe) over the seven rule sources x placements x ignore/whitelist x repository placement (.git nowhere / above the root / at the root) with and without --no-require-git; every rule x every filtering flag alone and in pairs (--hidden, --no-ignore*, -u/-uu/-uuu); -t/-T with --type-add; --max-depth 0..2; the root given as '.', relative, absolute, a subdirectory, an explicit file plus a directory. Oracle: a reference model of the documented precedence.",
  note="Trusted: the reference model (DESIGN.md A.3). Patterns are plain basenames (glob semantics belong to C04/C12). With --no-require-git the repository boundary for parent .gitignore files is unspecified and follows the implementation (DESIGN.md §8).",
  tech="bounded exhaustive enumeration of rule-source assignments x flags x roots against a reference model of the documented precedence"),
 "C06": dict(cat="exploration", ref="DESIGN.md §4 C06",
  text="Bounded exhaustive enumeration: every tree with up to 2 nodes (quick: plus every 11th 3-node tree; thorough: all 3-node trees) over nine node kinds (directory, small / large / hidden file, symlink to file, to directory, to an ancestor (cycle), dangling, to a directory on another device) x 384 traversal configurations (max_depth, max_filesize, follow_links, same_file_system, entry filter, hidden filter, an .ignore rule; threads 2 (thorough 2/4/16)) x root variants; three-way oracle: build() == build_parallel() (same entries, exactly once, same number of error entries) == an independent recursive lister written from the documentation.",
  note="The parallel side runs unhooked (free-running) on these walks; its schedule space is C07's subject. Scratch trees on /dev/shm, the other device is /tmp (created and removed by the run).",
  tech="bounded exhaustive enumeration of trees x configurations with a three-way differential / reference-model oracle"),
 "C07": dict(cat="model_checking", ref="DESIGN.md §2, §3-E3/E4, §11 C07",
  text="Two layers. (E3) stateless model checking of the real implementation: the real ignore::WalkParallel runs under a cooperative replay scheduler (feature verif-hooks) and every interleaving of its hooked synchronisation points is executed up to a preemption bound (iterative preemption bounding), with injected Steal::Retry answers and a visitor Quit injected at every visit index, over all small trees; oracle: termination (deadlock / livelock detection) and exact visit multiset. (E4) an explicit-state model of the work-distribution / termination protocol (a step = the code between two hooked points) explored breadth-first over ALL interleavings, no preemption bound, for 2-3 (thorough 4) workers: no double visit, exact visit multiset in every all-exited state, every cycle is idle polling and every bottom strongly connected component is all-exited (termination under weak fairness). The model is bound to the code in both directions on every run: every implementation trace is replayed through the model's step function (worker, next point, visits, enabled set), and covering schedules of the model's state graph are executed on the implementation. If the binding fails the run prints MODEL-DRIFT and the model's result is not claimed; a model-level violation counts only when the implementation shows it on the converted schedule.",
  note="Trusted: crossbeam-deque linearizability (each deque operation is one atomic step; Retry is injected), SC behaviour of the RMW/SeqCst atomics, the scheduler hook itself. Not covered: more than 3 (quick) / 4 (thorough) workers, trees above the size bound, E3 schedules needing more preemptions than the bound on trees too large for E4.",
  tech="stateless model checking of the real code under a controlled scheduler (preemption-bounded) plus explicit-state exploration of a protocol model with two-way trace conformance against the implementation"),
 "C08": dict(cat="model_checking", ref="DESIGN.md §2, §3-E3, §4 C08",
  text="Stateless schedule exploration of the REAL rg binary: one process per schedule, the parallel walker's workers serialised by the cooperative replay scheduler (RG_VERIF_SCHED, feature ignore/verif-hooks), every interleaving of the hooked points within 1 (quick) / 2 (thorough) preemptions, for four scratch trees (unequal file sizes, nested directories, a dangling symlink under -L, a --pre command failing after it produced output) x nine output modes x -j2 (thorough also -j3), plus --sort path. Oracle: the same command at -j1 — same exit status; stdout split by the mode's own framing into per-file blocks is a permutation of the single-threaded blocks, each file contiguous and exactly once, separators exactly between blocks; --sort byte-identical.",
  note="Trusted: termcolor's BufferWriter locking; the visitor (search and print of one file) is atomic between two hooked points. Not judged: whether the partial results of a file whose search failed are shown (error handling: C15/C18).",
  tech="stateless model checking: exhaustive schedule exploration (preemption-bounded) of the real binary under a controlled scheduler, -j1 run as the reference"),
 "C09": dict(cat="exploration", ref="DESIGN.md §4 C09",
  text="Bounded exhaustive enumeration: every input over {a,b,é,0xFF,\\r,\\n} up to length 4/5 (plus a family of 10 KiB / 70 KiB lines) x 14/36 patterns (+8 multi-line ones) x every subset of -n -b --column --vimgrep -H --heading --null x context x {line, -U, --crlf}, rendered in-process by the standard printer and parsed back with the mode's grammar: every record's text is the input's line at the printed line number / byte offset and the column is the start of the first reference match; JSON printer: begin / ordered match+context / end framing, lines and submatches decode (text or base64, base64 iff not UTF-8) to the input at absolute_offset, submatches equal the reference regex's matches, concatenation == input when every line is reported; plus a searcher/printer reuse layer (259 files in a row through search_path).",
  note="-o, -r, --trim, --max-columns are outside the property by its statement. Under --crlf inputs with a bare CR are not judged for match positions (documented: the matcher never matches \\r). Known finding (open): in multi-line mode every line of a block carries the block's first column.",
  tech="bounded exhaustive enumeration of inputs x patterns x flag subsets; output parsed back and compared with the input and a reference matcher"),
 "C10": dict(cat="exploration", ref="DESIGN.md §4 C10",
  text="Bounded exhaustive metamorphic enumeration: every content over {a,b,-,\\n} up to length 5/6 (plus CRLF variants) x 33 patterns (empty-matching, anchors, word boundaries, ten that can match a line terminator) x 11/17 flag sets (-i -w -x -v -U -m N --crlf), each group rendered in-process (printers configured as hiargs.rs does) in ten modes and checked against the statement's relations; plus a command-line layer on 3-file trees for per-file counts, exit status, mode normalisation and --stats totals. No hand-written expected outputs.",
  note="The --count relation is keyed on the strategy actually used (line-by-line: count == matching lines printed; true multi-line: count == count-matches, as the flag documentation defines). Binary files excluded (C14).",
  tech="bounded exhaustive enumeration with metamorphic (cross-mode) oracles"),
 "C11": dict(cat="model_checking", ref="DESIGN.md §3-E2, §4 C11, Appendix A.6",
  text="Explicit-state exploration of product automata: for every pattern of an enumerated grammar (token strings, a template family exercising the literal extractor, patterns on the extractor's limits and with raw control characters, string literals harvested from the repository's tests) x builder option sets, the REAL matcher's final HIR and extracted inner literals (hooks) are determinised and four automata explorations decide, over ALL byte strings: no match contains a terminator byte; an accepted pattern means on terminator-free lines what it means as written; every byte in non_matching_bytes occurs in no match; a matching line contains one of the candidate literals. Witnesses and one shortest path per product state are replayed on the real RegexMatcher.",
  note="Trusted: regex-syntax translation and regex-automata determinisation as the meaning of patterns. Unicode word boundaries are decided over ASCII lines (the DFA quits on non-ASCII). Under CRLF the matcher is documented never to match \\r, so 'as written' is judged on lines without \\r and \\n.",
  tech="explicit-state model checking: BFS over product automata (language inclusion / equivalence over all lines), model bound to the code by replaying paths on the real matcher"),
 "C12": dict(cat="exploration", ref="DESIGN.md §4 C12, Appendix A.4",
  text="Bounded exhaustive enumeration: every glob over a 17-token grammar (incl. alternates with recursive wildcards in first and later branches) up to length 3 x all 16 option sets x every path over {a,b,.,/,-,A} up to length 5 (quick) / 6 (thorough) plus non-UTF-8 variants; single globs against an independent reference matcher written from the documented syntax, glob sets (singletons, all-glob sets, mixed-option set, all pairs/triples over a strategy-covering pool) against their member globs.",
  note="Trusted: regex-automata's matching of each member glob's regex; shapes beyond the length bounds are not explored.",
  tech="bounded exhaustive enumeration (all globs x options x paths up to a size bound) against a reference model"),
 "C13": dict(cat="exploration", ref="DESIGN.md §4 C13, Appendix A.5",
  text="Bounded exhaustive enumeration: every pattern over a 13-token grammar (length <= 3, plus the length-4 strings with an alternation and a line-crossing token) built as rg -U builds it x LF / LF+dotall / CRLF x every input over {a,b,-,\\n[,\\r]} up to a length bound x invert x context x strategy (slice, fragmented reader, file), searcher reused across inputs; reported lines, context, separators, numbering, offsets and byte count compared with a reference that iterates the regex crate over the WHOLE input and maps matches to lines.",
  note="Trusted: the regex crate's find_at as the meaning of the pattern; the grep model of C03 for context. Grouping of adjacent lines into one matched call is not constrained (flattened comparison). Known finding (open): inverted multi-line search resumes at the end of the matched line.",
  tech="bounded exhaustive enumeration of patterns x inputs x configurations against a reference model (small-scope model checking)"),
 "C14": dict(cat="exploration", ref="DESIGN.md §4 C14",
  text="Bounded exhaustive enumeration at two scales: library level (Searcher + Standard printer; every single-NUL placement in a 4-line file (pairs on the thorough tier) x detection quit/convert/none x roll-buffer capacities 1..6 x read sizes x slice x multi-line x context) and the real rg binary (the same files plus 130 KiB files with a NUL around the 64 KiB sniff boundary, including the straddling line as a matching / context line; implicit / explicit / stdin x default / --binary / --text x mmap / no mmap x ten output modes). Oracle: no NUL on the output unless text mode, the statement's outcome table for standard output, --text == detection disabled.",
  note="Not judged: --null-data (detection disabled by design); which prefix of the text-mode output is printed before the cut-off (strategy dependent by design).",
  tech="bounded exhaustive enumeration of NUL placements x strategies x buffer/read histories x CLI modes against the documented outcome table"),
 "C15": dict(cat="fault_enumeration", ref="DESIGN.md §3-E5, §4 C15",
  text="Exhaustive single-fault enumeration on the real rg binary: for 3 trees x 6 modes x -j1 / -j2 (the latter serialised by the replay scheduler), the run is repeated under `strace -e inject` with one failing syscall at EVERY index of the fault-free run's openat / read / getdents64 / write sequence (EACCES, ENOENT, EIO, EPIPE); decision table: diagnostic naming the failed path, exit status 2 (0 for -q with a match), other files' results intact; EPIPE on stdout: status 0, no diagnostic, no further file opened. Plus invalid arguments (status 2, empty stdout), real faults as uid 65534 (mode 000, dangling symlinks, missing paths, -q, --no-messages), and the stdout consumer closing after k bytes for every k in seven variants.",
  note="Trusted: strace's injector; setpriv. Faults landing on start-up files (shared libraries, locale, /proc) are skipped by looking at the injected call's path.",
  tech="exhaustive fault enumeration: one injected fault at every syscall index of a history, every pipe-closing point"),
 "C16": dict(cat="fault_enumeration", ref="DESIGN.md §4 C16",
  text="Exhaustive crash-point enumeration on the real searcher: for every input up to a length bound, every configuration / binary mode / matcher path / strategy, the search is re-run once per result index k with the sink answering stop and once answering error (for every event kind: begin, matched, context, context_break, binary_data), and once per read index j with the reader failing and with the reader returning Interrupted; plus -m N through the standard printer for every N. Oracle: exact prefix of the uninterrupted event list, finish exactly once after a stop and never after an error, the injected error is what the caller gets.",
  note="Trusted: the uninterrupted run of the same strategy as the reference list (C02/C03 check that list itself). Not judged: -m N in multi-line mode when two matching lines are adjacent (they are one block by design, DESIGN.md §8).",
  tech="exhaustive fault / crash-point enumeration over all result and read indices of all small histories"),
 "C17": dict(cat="exploration", ref="DESIGN.md §4 C17",
  text="Bounded exhaustive enumeration: every text of <= 3 (quick) / 4 (thorough) code units per source encoding (UTF-16 LE/BE incl. surrogate pairs, lone surrogates and a trailing odd byte; UTF-8 incl. malformed sequences; latin1; shift_jis) under 17 BOM / --encoding combinations (mark overriding a conflicting label, --encoding none with a mark), also aligned to the 8 KiB transcoding buffer at offsets -6..6; x search_slice, search_path with/without mmap, search_reader with roll-buffer capacity 1/3/8 x every composition of the input length as read sizes; x four patterns (one multi-line). Reference: encoding_rs applied in the harness, then a plain slice search of the UTF-8 result; full Sink event streams compared.",
  note="Trusted: encoding_rs as the meaning of each encoding. Three open known findings, all inside the encoding_rs_io / encoding_rs dependencies (pending bytes dropped after EOF on tiny reads; UTF-8 mark not overriding a label; incomplete trailing sequence dropped), each recognised by a counterfactual switch of the reference.",
  tech="bounded exhaustive enumeration of texts x encodings x strategies x read/buffer histories against a reference transcoder"),
 "C18": dict(cat="fault_enumeration", ref="DESIGN.md §3-E5, §4 C18",
  text="Exhaustive enumeration of child-process behaviours on the real rg binary: --pre with a helper script whose stdout shape (the file, upper-cased, empty, 220 KiB, a NUL after the first line), stderr volume (none, 10 bytes, 1 MiB, 3 MiB written before stdout), exit (0, 1, 2, 255, kill -9) and moment of death (before / during / after its output) are the alphabet x rg consuming in {full, -m1, -q, -l, -c, implicit directory search with binary quit} x --pre-glob in {*.txt, absent, !*.dat, *.dat, !*.txt} (quick: one dimension varied at a time; thorough: the full product, 9000 cases), a missing and a non-executable command; -z on gzip / bzip2 / xz archives truncated at EVERY byte length, an unrecognised extension, a plain file. Oracle: results equal rg run on the bytes the command wrote when run once outside rg; non-selected files searched directly; failure after the output was consumed or failure to start => diagnostic naming the file and status 2; early stop with empty stderr is no error; every run ends within a 10 s horizon.",
  note="Trusted: /bin/sh, gzip, bzip2, xz as the environment. The early-stop x non-empty-stderr cell is executed but not judged (racy by construction and not specified). Where binary detection fires depends on how bytes arrive (C14), so the NUL shape is judged on errors and blocking only.",
  tech="exhaustive fault enumeration over the child-process behaviour alphabet x consumption modes; every truncation point of each archive"),
 "C19": dict(cat="exploration", ref="DESIGN.md §4 C19",
  text="Bounded exhaustive enumeration in two layers: (1) every replacement template that is a token string of length <= 3 (quick) / 4 (thorough) over a 19-token grammar ($, $$, $N, ${N}, $name, ${name}, unterminated and empty braces, ...) x 21 patterns with optional / nested / named / empty-matching groups x 6 haystacks: the matcher's interpolation against regex::bytes::Captures::expand; (2) the standard printer with -r for 23 templates x the patterns x every input over {a,b,-,\\n} up to length 4/5 x {plain, -o, --crlf, --column, -v -C1, -U}: printed output against per-line replace-all with the terminator held aside, per-match expansion under -o, lines without a match unaltered.",
  note="Trusted: the regex crate version in Cargo.lock as the specification of the replacement syntax. Two open known findings with counterfactual switches (braced reference name charset — pinned by the repository's own unit tests; a replacement ending in a newline swallows the line's terminator).",
  tech="bounded exhaustive enumeration of templates x patterns x inputs against the regex library as reference"),
}

NOT_YET = "check not built yet in this round (planned in DESIGN.md §10); not claimed until its engine is committed"
NA = {}

def main():
    hooks = subprocess.check_output(["git","-C","/repo","log","--format=%h %s"]).decode().splitlines()
    hook_commits = [l.split()[0] for l in hooks if l.split(' ',1)[1].startswith("verif hooks")]
    checks = []
    for pid in sorted(CHECKS):
        c = CHECKS[pid]
        checks.append({
            "property_id": pid,
            "quick_cmd": f"./check {pid} --tier quick",
            "thorough_cmd": f"./check {pid} --tier thorough",
            "evidence_file": f"evidence/{pid}.json",
            "replay_cmd_template": f"./check {pid} --replay {{path}}",
            "engine": "vp",
            "level_claimed": {"category": c["cat"], "text": c["text"], "design_ref": c["ref"]},
            "level_note": c["note"],
            "technique": c["tech"],
        })
    na = []
    for i in range(1, 20):
        pid = "C%02d" % i
        if pid not in CHECKS:
            na.append({"property_id": pid, "reason": NA.get(pid, NOT_YET)})
    m = {
        "version": 1,
        "setup_cmd": "cd /verif/engine && CARGO_NET_OFFLINE=true cargo build --release --offline",
        "hooks": {
            "guard": "cargo feature `verif-hooks` (crates ignore, grep-searcher, grep-regex)",
            "enable": "the engine depends on /repo/crates/{ignore,searcher,regex} by path with features=[\"verif-hooks\"]; CLI-level checks build rg with `cargo build --release --manifest-path /repo/Cargo.toml --features ignore/verif-hooks --target-dir /verif/.target/rg`",
            "baseline_off_cmd": "cd /repo && cargo test --workspace --no-fail-fast --offline",
            "source_commits": list(reversed(hook_commits)),
            "add_only": True,
        },
        "engines": [{"name": "vp", "path": "engine/vp", "serves_properties": sorted(CHECKS),
                     "kind_free_text": "Rust binary, one subcommand per property; bounded exhaustive enumeration against reference models, product-automaton BFS, schedule exploration of the real parallel walker, fault enumeration"}],
        "checks": checks,
        "not_applicable": na,
        "notes": "Every check rebuilds the engine against /repo's working tree (path dependencies, hooks on) through ./check. Known findings: known_findings.json. Design and per-property bounds: DESIGN.md.",
    }
    json.dump(m, open("/verif/MANIFEST.json", "w"), indent=1)
    print("checks:", sorted(CHECKS), "not claimed:", [n["property_id"] for n in na])

main()
