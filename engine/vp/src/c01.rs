//! C01 — a line is reported iff the pattern matches that line.
//! Layer 1 (E2, per pattern over ALL lines): (a) the pattern as the user
//! wrote it (flags mapped from the documentation) == the built matcher on
//! every terminator-free line; (b) the matcher run inside a buffer (fast
//! path) == the matcher run on the stripped line (slow path).
//! Layer 2 (E1): the real Searcher on every small input, fast path vs slow
//! path vs a per-line reference regex.
//! Layer 3: the `rg` command line (flag -> builder mapping).

use std::collections::BTreeMap;

use grep_matcher::Matcher;
use grep_regex::RegexMatcher;
use serde_json::json;

use crate::{auto, c11, core::*, rx::*, srch::*};

fn c01_option_sets(tier: Tier) -> Vec<Opts> {
    let b = Opts::base;
    let mut v = vec![
        b(Lt::Lf),
        b(Lt::Crlf),
        Opts { word: true, ..b(Lt::Lf) },
        Opts { word: true, ..b(Lt::Crlf) },
        Opts { whole_line: true, ..b(Lt::Lf) },
        Opts { whole_line: true, ..b(Lt::Crlf) },
        Opts { case: Case::Insensitive, ..b(Lt::Lf) },
        Opts { case: Case::Smart, ..b(Lt::Lf) },
        Opts { fixed: true, ..b(Lt::Lf) },
        b(Lt::Nul),
        Opts { unicode: false, ..b(Lt::Lf) },
    ];
    if tier == Tier::Thorough {
        v.extend([
            Opts { fixed: true, word: true, ..b(Lt::Lf) },
            Opts { fixed: true, case: Case::Insensitive, ..b(Lt::Lf) },
            Opts { fixed: true, whole_line: true, ..b(Lt::Crlf) },
            Opts { case: Case::Smart, word: true, ..b(Lt::Crlf) },
            Opts { case: Case::Insensitive, whole_line: true, ..b(Lt::Lf) },
            Opts { word: true, ..b(Lt::Nul) },
            Opts { whole_line: true, ..b(Lt::Nul) },
            Opts { unicode: false, word: true, ..b(Lt::Crlf) },
        ]);
    }
    v
}

struct WitnessList {
    witnesses: Vec<auto::Witness>,
}

#[derive(Default)]
struct L1 {
    pairs: u64,
    accepted: u64,
    buffer_checked: u64,
    absorbed: u64,
    stats: auto::Stats,
    replays: u64,
    disc: Vec<(Option<&'static str>, String, serde_json::Value)>,
    drift: Vec<String>,
}

/// Matched line numbers (1-based) of a real search.
fn searcher_lines(m: &RegexMatcher, o: &Opts, input: &[u8], slow: bool, invert: bool, strat: u8) -> Result<Vec<u64>, String> {
    let term = match o.lt {
        Lt::Crlf => Term::Crlf,
        Lt::Nul => Term::Nul,
        _ => Term::Lf,
    };
    let mut cfg = Cfg::plain(term);
    cfg.passthru = slow; // passthru forces the slow line path
    cfg.invert = invert;
    let mut b = cfg.builder();
    if strat > 0 {
        b.verif_buffer_capacity(Some(if strat == 1 { 1 } else { 3 }));
    }
    let mut s = b.build();
    let mut rec = Rec::new();
    let res = if strat == 0 {
        s.search_slice(m, input, &mut rec)
    } else {
        let sizes: [usize; 0] = [];
        s.search_reader(m, FragReader::new(input, &sizes, if strat == 1 { 1 } else { 2 }), &mut rec)
    };
    res.map_err(|e| e.to_string())?;
    Ok(rec.events.iter().filter_map(|e| if let Ev::Match { line, .. } = e { *line } else { None }).collect())
}

fn layer1_pair(pats: &[&str], o: &Opts, acc: &mut L1) {
    acc.pairs += 1;
    let Ok(real) = o.build(pats) else { return };
    let Ok((sh, _)) = spec_hir_with(pats, o, false) else { return };
    acc.accepted += 1;
    let key = |what: &str| format!("{} | {} | {}", what, o.show(), pats.join(" -e "));
    let forbidden = o.forbidden_in_match();
    let Ok(d_final) = auto::build(real.verif_final_hir()) else { return };
    let Ok(d_spec) = auto::build(&sh) else { return };
    // (a) as written == as built, on all lines free of terminator bytes
    let al = auto::reps(&[&d_spec, &d_final], &forbidden, &[]);
    if let (Some(s1), Some(s2)) = (d_spec.start(false, None), d_final.start(false, None)) {
        let ex = auto::product_bfs(
            &[&d_spec, &d_final],
            &[s1, s2],
            &al,
            &[vec![(vec![], true), (vec![], true)]],
            &|_, _| true,
            &|_, f| if f[0] != f[1] { Some(format!("as written: {}, as built: {}", f[0], f[1])) } else { None },
            12,
        );
        acc.stats.add(&ex.stats);
        for p in ex.sample_paths.iter() {
            if let Some(v) = c11::dfa_matches(&d_final, p) {
                acc.replays += 1;
                if real_is_match(&real, p) != v {
                    acc.drift.push(key(&format!("final-HIR DFA vs real matcher on {:?}", esc(p))));
                }
            }
        }
        if let Some(w) = ex.witness {
            acc.replays += 1;
            // confirm end to end: the real searcher (slow path = the line's
            // content alone) against an independent engine for the spec
            let spec_says = spec_regex(&sh).map(|r| r.is_match(&w.line[..]));
            let mut input = w.line.clone();
            input.push(o.term_bytes().first().copied().unwrap_or(b'\n'));
            let real_says = searcher_lines(&real, o, &input, false, false, 0).map(|l| !l.is_empty()).ok();
            if spec_says.is_some() && real_says.is_some() && spec_says != real_says {
                // known finding: under --null-data the anchors still match at \n
                let cf = if o.lt == Lt::Nul {
                    spec_hir_with(pats, o, true).ok().and_then(|(h, _)| spec_regex(&h)).map(|r| r.is_match(&w.line[..]))
                } else {
                    None
                };
                let finding = if cf.is_some() && cf == real_says { Some("null-data-anchors-match-at-line-feed") } else { None };
                acc.disc.push((finding, key("line-verdict-differs-from-pattern-as-written"), json!({
                    "kind": "spec-vs-built", "patterns": pats, "opts": c11::opts_json(o), "line": esc(&w.line),
                    "as_written_matches": spec_says, "search_reports_line": real_says,
                })));
            } else {
                acc.drift.push(key("spec-vs-built (not confirmed by the real searcher)"));
            }
        }
    }
    // (c) candidate literals never pass over a matching line (the literal
    // prefilter may not drop a line): language inclusion, as in C11 (d), but
    // confirmed end to end on the real searcher (fast path vs slow path)
    if let (Some(lits), true) = (real.verif_inner_literals(), matches!(o.lt, Lt::Lf | Lt::Crlf)) {
        let lit_hir = regex_syntax::hir::Hir::alternation(lits.iter().map(|l| regex_syntax::hir::Hir::literal(l.clone())).collect());
        if let Ok(d_l) = auto::build(&lit_hir) {
            let term = o.term_bytes();
            let al = auto::reps(&[&d_final, &d_l], &term, &[]);
            if let (Some(s1), Some(s2)) = (d_final.start(false, None), d_l.start(false, None)) {
                let ex = auto::product_bfs(
                    &[&d_final, &d_l],
                    &[s1, s2],
                    &al,
                    &[vec![(vec![], true), (vec![], true)]],
                    &|_, _| true,
                    &|_, f| if f[0] && !f[1] { Some("the line matches but contains none of the candidate literals".into()) } else { None },
                    0,
                );
                acc.stats.add(&ex.stats);
                if let Some(w) = ex.witness {
                    acc.replays += 1;
                    let mut input = w.line.clone();
                    input.push(term[0]);
                    let fast = searcher_lines(&real, o, &input, false, false, 0);
                    let slow = searcher_lines(&real, o, &input, true, false, 0);
                    match (fast, slow) {
                        (Ok(f), Ok(s)) if f != s => acc.disc.push((None, key("literal-prefilter-drops-line"), json!({
                            "kind": "fast-vs-slow", "patterns": pats, "opts": c11::opts_json(o), "input": esc(&input),
                            "fast_path_lines": f, "slow_path_lines": s, "model": w.what,
                            "literals": lits.iter().map(|l| esc(l)).collect::<Vec<_>>(),
                        }))),
                        _ => acc.drift.push(key(&format!("literal inclusion witness {:?} not confirmed by the real searcher", esc(&w.line)))),
                    }
                }
            }
        }
    }
    // (b) fast path (regex run inside the buffer) == slow path (regex run on
    // the stripped line). Only when no candidate literals are used (candidate
    // lines are re-verified on the stripped line) and the fast path applies.
    if real.verif_inner_literals().is_none() && matches!(o.lt, Lt::Lf | Lt::Crlf) && real.line_terminator().is_some() {
        acc.buffer_checked += 1;
        let crlf = o.lt == Lt::Crlf;
        let al = auto::reps(&[&d_final], &[b'\n'], if crlf { &[b'\r'] } else { &[] });
        let endings: Vec<auto::Ending> = if crlf {
            vec![
                vec![(vec![b'\r', b'\n'], false), (vec![], true)],
                vec![(vec![b'\n'], false), (vec![], true)],
                vec![(vec![], true), (vec![], true)],
            ]
        } else {
            vec![vec![(vec![b'\n'], false), (vec![], true)], vec![(vec![], true), (vec![], true)]]
        };
        for ctx in [None, Some(b'\n')] {
            let (Some(s1), Some(s2)) = (d_final.start(false, ctx), d_final.start(false, None)) else { continue };
            let ex = auto::product_bfs(
                &[&d_final, &d_final],
                &[s1, s2],
                &al,
                &endings,
                // the ending "\n" alone only corresponds to the same stripped
                // line if the content does not end in \r
                &|last, ei| !(crlf && ei == 1 && last == Some(b'\r')),
                &|_, f| {
                    // report the dangerous direction first when both exist
                    if f[1] && !f[0] {
                        Some(format!("in buffer: {}, stripped line: {}", f[0], f[1]))
                    } else if f[0] != f[1] && !crlf {
                        Some(format!("in buffer: {}, stripped line: {}", f[0], f[1]))
                    } else {
                        None
                    }
                },
                0,
            );
            acc.stats.add(&ex.stats);
            // (under CRLF, in-buffer-only hits are looked for separately so
            // that they cannot hide a passed-over line)
            let ex2 = if crlf {
                let e = auto::product_bfs(
                    &[&d_final, &d_final],
                    &[s1, s2],
                    &al,
                    &endings,
                    &|last, ei| !(crlf && ei == 1 && last == Some(b'\r')),
                    &|_, f| if f[0] && !f[1] { Some(format!("in buffer: {}, stripped line: {}", f[0], f[1])) } else { None },
                    0,
                );
                acc.stats.add(&e.stats);
                e.witness
            } else {
                None
            };
            let witnesses: Vec<auto::Witness> = ex.witness.into_iter().chain(ex2.into_iter()).collect();
            let ex = WitnessList { witnesses };
            for w in ex.witnesses {
                acc.replays += 1;
                // confirm on the real searcher: fast path vs slow path
                let mut confirmed = None;
                let tails: Vec<&[u8]> = if crlf { vec![b"\r\n", b"\n", b""] } else { vec![b"\n", b""] };
                'outer: for tail in tails {
                    for prefix in [&b""[..], b"\n"] {
                        let mut input = prefix.to_vec();
                        input.extend(&w.line);
                        input.extend(tail);
                        let fast = searcher_lines(&real, o, &input, false, false, 0);
                        let slow = searcher_lines(&real, o, &input, true, false, 0);
                        if let (Ok(f), Ok(s)) = (fast, slow) {
                            if f != s {
                                confirmed = Some((input, f, s));
                                break 'outer;
                            }
                        }
                    }
                }
                match confirmed {
                    Some((input, f, s)) => {
                        let between_cr_lf = crlf;
                        acc.disc.push((
                            if between_cr_lf { Some("crlf-match-between-cr-and-lf") } else { None },
                            key("fast-path-differs-from-slow-path"),
                            json!({
                                "kind": "fast-vs-slow", "patterns": pats, "opts": c11::opts_json(o), "input": esc(&input),
                                "fast_path_lines": f, "slow_path_lines": s, "model": w.what,
                            }),
                        ));
                    }
                    // Under CRLF the matcher hands every in-buffer hit to
                    // the searcher as a *candidate* that is re-verified on
                    // the stripped line, so an in-buffer-only hit is absorbed
                    // by design; what must never happen is the reverse (a
                    // matching line the in-buffer run passes over).
                    None if crlf && w.what.starts_with("in buffer: true") => acc.absorbed += 1,
                    None => acc.drift.push(key(&format!("fast-vs-slow witness {:?} not confirmed by the real searcher", esc(&w.line)))),
                }
            }
        }
    }
}

// ---------------------------------------------------------------------------
// Layer 2

const L2_PATTERNS: &[&str] = &[
    "a", "b", "-", "é", "", "a*", "b+", "a?", "ab", "a|b", "a|", "^", "$", "^$", "^a", "a$", "\\b", "\\B", "\\ba", "a\\b", ".", "..", ".*", ".+",
    "\\w", "\\W", "\\s", "\\S", "[ab]", "[^a]", "[^ab]", "[a\\n]", "[^\\n]", "\\w+b\\w", "\\w+ab", "a.b", "(a|b)-", "-(a|b)", "a{2}", "(?:a|é)b",
    "\\x{FF}", "[^-]+$", "^[^-]", "a*$", "^b*", "\\S+\\s", "\\s$", "^\\s", "b?-", "(?i)A", "A", "é|a", ".$", "^.", "-$", "\\B-", "-\\B", "\\b-", "x*",
    "\\r", "a\\r?$", "\\bab{0,2}-", "\\w+a{0,2}b", "\\ba{2}b",
];

#[derive(Default)]
struct L2 {
    runs: u64,
    nontrivial: u64,
    fast_runs: u64,
    disc: Vec<(Option<&'static str>, String, serde_json::Value)>,
}

fn layer2(tier: Tier, total: &mut L2) {
    let maxlen = tier.pick(4, 5);
    let mut work: Vec<(usize, Opts, bool)> = vec![];
    let osets = [
        Opts::base(Lt::Lf),
        Opts::base(Lt::Crlf),
        Opts::base(Lt::Nul),
        Opts { word: true, ..Opts::base(Lt::Lf) },
        Opts { word: true, ..Opts::base(Lt::Crlf) },
        Opts { whole_line: true, ..Opts::base(Lt::Crlf) },
        Opts { unicode: false, ..Opts::base(Lt::Lf) },
    ];
    for pi in 0..L2_PATTERNS.len() {
        for o in osets.iter() {
            for invert in [false, true] {
                work.push((pi, *o, invert));
            }
        }
    }
    let mut input_sets: BTreeMap<Lt, Vec<Vec<u8>>> = BTreeMap::new();
    for lt in [Lt::Lf, Lt::Crlf, Lt::Nul] {
        let al: Vec<u8> = match lt {
            Lt::Nul => vec![b'a', b'b', 0, b'\n', b'\r', 0xFF, 0xC3, 0xA9],
            _ => vec![b'a', b'b', b'-', b'\n', b'\r', 0xFF, 0xC3, 0xA9],
        };
        let n = seq_count(al.len(), maxlen);
        let mut idx = vec![];
        input_sets.insert(
            lt,
            (0..n)
                .map(|i| {
                    seq_decode(al.len(), i, &mut idx);
                    idx.iter().map(|&k| al[k]).collect()
                })
                .collect(),
        );
    }
    par_fold(
        work.len(),
        1,
        L2::default,
        |acc, wi| {
            let (pi, o, invert) = work[wi];
            let pat = L2_PATTERNS[pi];
            let (Ok(real), Ok((sh, _))) = (o.build(&[pat]), spec_hir_with(&[pat], &o, false)) else { return };
            let Some(sr) = spec_regex(&sh) else { return };
            let sr_cf = if o.lt == Lt::Nul { spec_hir_with(&[pat], &o, true).ok().and_then(|(h, _)| spec_regex(&h)) } else { None };
            let forbidden = o.forbidden_in_match();
            let term = o.term_bytes()[0];
            let tterm = match o.lt {
                Lt::Crlf => Term::Crlf,
                Lt::Nul => Term::Nul,
                _ => Term::Lf,
            };
            let mut per = 0;
            for input in input_sets[&o.lt].iter() {
                let lines = split_lines(input, term);
                // reference verdict per line, where the documentation defines it
                let expect: Vec<Option<bool>> = lines
                    .iter()
                    .map(|&(s, e)| {
                        let l = strip(&input[s..e], tterm);
                        if l.iter().any(|b| forbidden.contains(b)) {
                            None
                        } else {
                            Some(sr.is_match(l) != invert)
                        }
                    })
                    .collect();
                let slow = searcher_lines(&real, &o, input, true, invert, 0);
                for strat in 0..3u8 {
                    let fast = searcher_lines(&real, &o, input, false, invert, strat);
                    acc.runs += 1;
                    acc.fast_runs += 1;
                    let (Ok(f), Ok(s)) = (&fast, &slow) else {
                        acc.disc.push((None, format!("search-error | {} | {}", o.show(), pat), json!({"kind":"l2-error"})));
                        continue;
                    };
                    if !f.is_empty() {
                        acc.nontrivial += 1;
                    }
                    let mut bad = f != s;
                    for (i, ex) in expect.iter().enumerate() {
                        if let Some(ex) = ex {
                            if s.contains(&(i as u64 + 1)) != *ex {
                                bad = true;
                            }
                        }
                    }
                    if bad && per < 2 && acc.disc.len() < 200 {
                        per += 1;
                        let only_crlf = o.lt == Lt::Crlf && {
                            // explained by the known finding iff the slow path is
                            // right and the fast path only ADDS lines ending in \r\n
                            let slow_ok = expect.iter().enumerate().all(|(i, ex)| ex.map_or(true, |ex| s.contains(&(i as u64 + 1)) == ex));
                            slow_ok
                                && f.iter().chain(s.iter()).all(|n| {
                                    f.contains(n) == s.contains(n) || {
                                        let (st, en) = lines[*n as usize - 1];
                                        input[st..en].ends_with(b"\r\n")
                                    }
                                })
                        };
                        // known finding (regex engine, outside /repo): a
                        // Unicode word-boundary assertion next to invalid
                        // UTF-8 is evaluated differently depending on how much
                        // of the haystack precedes it. Attributed only if the
                        // final HIR has such an assertion AND every line whose
                        // verdict differs between the paths (or from the
                        // reference) contains invalid UTF-8.
                        let uni_wb = real.verif_final_hir().properties().look_set().contains_word_unicode();
                        let differing_lines_invalid = (0..lines.len()).all(|i| {
                            let n = i as u64 + 1;
                            let differs = f.contains(&n) != s.contains(&n)
                                || expect[i].map_or(false, |ex| s.contains(&n) != ex || f.contains(&n) != ex);
                            !differs || std::str::from_utf8(&input[lines[i].0..lines[i].1]).is_err()
                        });
                        // known finding: under --null-data the anchors still
                        // match at \n inside a record — attributed iff both
                        // paths agree with each other and with the reference
                        // whose anchors do the same
                        let nul_lf = sr_cf.as_ref().map_or(false, |cf| {
                            f == s
                                && lines.iter().enumerate().all(|(i, &(st, en))| {
                                    let l = strip(&input[st..en], tterm);
                                    l.iter().any(|b| forbidden.contains(b)) || s.contains(&(i as u64 + 1)) == (cf.is_match(l) != invert)
                                })
                        });
                        let finding = if nul_lf {
                            Some("null-data-anchors-match-at-line-feed")
                        } else if uni_wb && differing_lines_invalid {
                            Some("unicode-word-boundary-next-to-invalid-utf8")
                        } else if only_crlf {
                            Some("crlf-match-between-cr-and-lf")
                        } else {
                            None
                        };
                        acc.disc.push((
                            finding,
                            format!("searcher | {}{} | {} | strat{} | {}", o.show(), if invert { " -v" } else { "" }, pat, strat, esc(input)),
                            json!({
                                "kind": "searcher-lines", "pattern": pat, "opts": c11::opts_json(&o), "invert": invert, "strategy": strat,
                                "input": esc(input), "fast_path_lines": f, "slow_path_lines": s,
                                "reference_per_line": expect,
                            }),
                        ));
                    }
                }
            }
        },
        |a| {
            total.runs += a.runs;
            total.nontrivial += a.nontrivial;
            total.fast_runs += a.fast_runs;
            total.disc.extend(a.disc);
        },
    );
}

// ---------------------------------------------------------------------------
// Layer 3: command line

struct L3 {
    runs: u64,
    disc: Vec<(Option<&'static str>, String, serde_json::Value)>,
}

fn layer3(tier: Tier) -> L3 {
    let rg = build_rg();
    let scratch = Scratch::new("c01");
    let files: Vec<(&str, &[u8])> = vec![
        ("f0", b"a\nAb\n-a-\n\nab\n"),
        ("f1", b"ab\r\nA\r\nx a\r\n\r\nb"),
        ("f2", b"a b\na.b\naXb\n"),
        ("f3", b"\xFFa\n\xC3\xA9\nA-B\n"),
    ];
    let nul_files: Vec<(&str, &[u8])> = vec![("n0", b"a\0Ab\0-a-\0\0ab\0"), ("n1", b"a\nb\0A\n\0")];
    for (n, c) in files.iter().chain(nul_files.iter()) {
        std::fs::write(scratch.path.join(n), c).unwrap_or_else(|_| machinery_error("scratch"));
    }
    let pats = ["a", "A", "a.b", "b$", "^a", "\\w+"];
    let flagsets: Vec<Vec<&str>> = {
        let base = ["-i", "-S", "-s", "-w", "-x", "-F", "--crlf", "--null-data", "-v"];
        let n = tier.pick(2, 3);
        let mut out = vec![vec![]];
        // all subsets of size <= n
        fn rec<'a>(base: &[&'a str], start: usize, cur: &mut Vec<&'a str>, n: usize, out: &mut Vec<Vec<&'a str>>) {
            if cur.len() == n {
                return;
            }
            for i in start..base.len() {
                cur.push(base[i]);
                out.push(cur.clone());
                rec(base, i + 1, cur, n, out);
                cur.pop();
            }
        }
        rec(&base, 0, &mut vec![], n, &mut out);
        out
    };
    let mut cases = vec![];
    for fs in flagsets.iter() {
        for p in pats.iter() {
            for second in [None, Some("-")] {
                cases.push((fs.clone(), *p, second));
            }
        }
    }
    let results: std::sync::Mutex<(u64, Vec<(Option<&'static str>, String, serde_json::Value)>)> = std::sync::Mutex::new((0, vec![]));
    par_fold(
        cases.len(),
        4,
        || (),
        |_, ci| {
            let (fs, p, second) = &cases[ci];
            let nul = fs.contains(&"--null-data");
            let crlf = fs.contains(&"--crlf") && !(nul && fs.iter().position(|f| *f == "--null-data") > fs.iter().position(|f| *f == "--crlf"));
            // --null-data given after --crlf disables crlf (documented); the
            // flag list is in a fixed order with --crlf before --null-data
            let case = {
                let mut c = Case::Sensitive;
                for f in fs.iter() {
                    match *f {
                        "-i" => c = Case::Insensitive,
                        "-S" => c = Case::Smart,
                        "-s" => c = Case::Sensitive,
                        _ => {}
                    }
                }
                c
            };
            let o = Opts {
                lt: if nul { Lt::Nul } else if crlf { Lt::Crlf } else { Lt::Lf },
                case,
                word: fs.contains(&"-w") && !fs.contains(&"-x"),
                whole_line: fs.contains(&"-x"),
                fixed: fs.contains(&"-F"),
                unicode: true,
                ban_nul: false,
                xmode: false,
                dotall: false,
                swap_greed: false,
            };
            // -w and -x together: the later flag wins in rg; our list has -w before -x
            let mut pl: Vec<&str> = vec![p];
            if let Some(s) = second {
                pl.push(s);
            }
            let Ok((sh, _)) = spec_hir_with(&pl, &o, false) else { return };
            let Some(sr) = spec_regex(&sh) else { return };
            let sr_cf = if o.lt == Lt::Nul { spec_hir_with(&pl, &o, true).ok().and_then(|(h, _)| spec_regex(&h)) } else { None };
            let invert = fs.contains(&"-v");
            let forbidden = o.forbidden_in_match();
            let set = if nul { &nul_files } else { &files };
            for (name, content) in set.iter() {
                let mut cmd = std::process::Command::new(&rg);
                cmd.current_dir(&scratch.path).args(["--no-config", "-n", "--no-heading", "--color", "never", "--text"]);
                for f in fs.iter() {
                    cmd.arg(f);
                }
                for x in pl.iter() {
                    cmd.arg("-e").arg(x);
                }
                cmd.arg(name);
                let out = cmd.output().unwrap_or_else(|_| machinery_error("cannot run rg"));
                let term = o.term_bytes()[0];
                let tterm = match o.lt {
                    Lt::Crlf => Term::Crlf,
                    Lt::Nul => Term::Nul,
                    _ => Term::Lf,
                };
                let lines = split_lines(content, term);
                let mut want = vec![];
                let mut defined = true;
                for (i, &(s, e)) in lines.iter().enumerate() {
                    let l = strip(&content[s..e], tterm);
                    if l.iter().any(|b| forbidden.contains(b)) {
                        defined = false;
                    }
                    if sr.is_match(l) != invert {
                        want.push(i as u64 + 1);
                    }
                }
                if !defined {
                    continue;
                }
                let status = out.status.code().unwrap_or(-1);
                let mut got = vec![];
                // records are "N:text" separated by the terminator byte
                for rec in out.stdout.split(|&b| b == if nul { 0 } else { b'\n' }) {
                    let digits: Vec<u8> = rec.iter().copied().skip_while(|b| *b == b'\n').take_while(|b| b.is_ascii_digit()).collect();
                    let rest = rec.iter().copied().skip_while(|b| *b == b'\n').skip(digits.len()).next();
                    if !digits.is_empty() && rest == Some(b':') {
                        got.push(String::from_utf8(digits).unwrap().parse::<u64>().unwrap());
                    }
                }
                let mut r = results.lock().unwrap();
                r.0 += 1;
                let ok = if status == 2 { false } else { got == want && (status == 0) == !want.is_empty() };
                if !ok && status != 2 && r.1.len() < 100 {
                    let only_crlf = o.lt == Lt::Crlf && want.iter().all(|n| got.contains(n));
                    let nul_lf = sr_cf.as_ref().map_or(false, |cf| {
                        let want_cf: Vec<u64> = lines.iter().enumerate().filter(|(_, &(s, e))| cf.is_match(strip(&content[s..e], tterm)) != invert).map(|(i, _)| i as u64 + 1).collect();
                        got == want_cf
                    });
                    r.1.push((
                        if nul_lf { Some("null-data-anchors-match-at-line-feed") } else if only_crlf { Some("crlf-match-between-cr-and-lf") } else { None },
                        format!("cli | {} | {} | {}", fs.join(" "), pl.join(" -e "), name),
                        json!({"kind":"cli","flags":fs,"patterns":pl,"file":name,"content":esc(content),"printed_lines":got,"expected_lines":want,"status":status,
                               "stderr": String::from_utf8_lossy(&out.stderr)}),
                    ));
                }
            }
        },
        |_| {},
    );
    let mut r = results.into_inner().unwrap();
    // zero patterns (an empty -f file): no line matches, so -v reports every line
    {
        std::fs::write(scratch.path.join("empty.pat"), b"").unwrap();
        let nlines = 5u64; // f0
        for (flags, want) in [
            (vec!["-n"], vec![]),
            (vec!["-n", "-v"], (1..=nlines).collect::<Vec<u64>>()),
            (vec!["-n", "-v", "-i"], (1..=nlines).collect()),
            (vec!["-n", "-v", "-w"], (1..=nlines).collect()),
            (vec!["-n", "-v", "-F"], (1..=nlines).collect()),
            (vec!["-n", "-v", "-x"], (1..=nlines).collect()),
        ] {
            let out = std::process::Command::new(&rg)
                .current_dir(&scratch.path)
                .args(["--no-config", "--no-heading", "--color", "never", "-f", "empty.pat"])
                .args(&flags)
                .arg("f0")
                .output()
                .unwrap_or_else(|_| machinery_error("cannot run rg"));
            r.0 += 1;
            let got: Vec<u64> = String::from_utf8_lossy(&out.stdout).lines().filter_map(|l| l.split(':').next().and_then(|d| d.parse().ok())).collect();
            let status = out.status.code().unwrap_or(-1);
            if got != want || (status == 0) == want.is_empty() {
                r.1.push((
                    None,
                    format!("cli | zero patterns (-f empty) {} | f0", flags.join(" ")),
                    json!({"kind":"cli-zero-patterns","flags":flags,"printed_lines":got,"expected_lines":want,"status":status,"stderr":String::from_utf8_lossy(&out.stderr)}),
                ));
            }
        }
    }
    L3 { runs: r.0, disc: r.1 }
}

pub fn run(args: &Args) -> ! {
    if let Some(r) = &args.replay {
        replay(r);
    }
    let tier = args.tier;
    let mut ev = Evidence::new(args, "model_checking");
    let mut verdict = Verdict::new("C01");
    // ---- layer 1 ----
    let osets = c01_option_sets(tier);
    let toks3 = token_patterns(3);
    let n2 = token_patterns(2).len();
    let specials = special_patterns();
    let pool = ["a", "b", "A", "\\w", "$", "\\b", "a*", "[^a]", "é", "a|b", ""];
    let mut work: Vec<(Vec<String>, usize)> = vec![];
    for (oi, _) in osets.iter().enumerate() {
        let core = oi < 6;
        for (pi, p) in toks3.iter().enumerate() {
            if tier == Tier::Thorough || core || pi < n2 {
                work.push((vec![p.clone()], oi));
            }
        }
        for p in specials.iter() {
            work.push((vec![p.clone()], oi));
        }
        // several -e patterns
        for a in pool.iter() {
            for b in pool.iter() {
                work.push((vec![a.to_string(), b.to_string()], oi));
            }
        }
    }
    let mut l1 = L1::default();
    par_fold(
        work.len(),
        16,
        L1::default,
        |acc, wi| {
            let (pats, oi) = &work[wi];
            let refs: Vec<&str> = pats.iter().map(|s| s.as_str()).collect();
            layer1_pair(&refs, &osets[*oi], acc);
        },
        |a| {
            l1.pairs += a.pairs;
            l1.accepted += a.accepted;
            l1.buffer_checked += a.buffer_checked;
            l1.absorbed += a.absorbed;
            l1.stats.add(&a.stats);
            l1.replays += a.replays;
            l1.disc.extend(a.disc);
            l1.drift.extend(a.drift);
        },
    );
    eprintln!("[c01] layer 1 done at {:.1}s ({} pairs)", ev.elapsed(), l1.pairs);
    if !l1.drift.is_empty() {
        for d in l1.drift.iter().take(10) {
            eprintln!("MODEL-DRIFT: {}", d);
        }
        machinery_error("C01: the automaton model disagrees with the real code on a replayed witness (model drift)");
    }
    // ---- layer 2 ----
    let mut l2 = L2::default();
    layer2(tier, &mut l2);
    eprintln!("[c01] layer 2 done at {:.1}s ({} runs)", ev.elapsed(), l2.runs);
    // ---- layer 3 ----
    let l3 = layer3(tier);
    eprintln!("[c01] layer 3 done at {:.1}s ({} runs)", ev.elapsed(), l3.runs);
    for (f, k, v) in l1.disc.iter().chain(l2.disc.iter()).chain(l3.disc.iter()) {
        verdict.discrepancy(*f, k, v.clone());
    }
    if l1.buffer_checked == 0 || l2.nontrivial == 0 || l3.runs == 0 {
        machinery_error("C01: a mandatory coverage counter is zero");
    }
    ev.set("states", l1.stats.states);
    ev.set("transitions", l1.stats.transitions);
    ev.set("traces_validated_against_impl", l1.replays + l2.runs + l3.runs);
    ev.set("evaluations", l1.pairs + l2.runs + l3.runs);
    ev.set("distinct_nontrivial", l1.accepted + l2.nontrivial);
    ev.set("layer1_pattern_option_pairs", l1.pairs);
    ev.set("layer1_accepted", l1.accepted);
    ev.set("layer1_fast_vs_slow_products", l1.buffer_checked);
    ev.set("layer1_crlf_in_buffer_only_hits_absorbed_by_candidate_reverification", l1.absorbed);
    ev.set("layer1_paths_ended_by_dfa_quit", l1.stats.quit_paths);
    ev.set("layer2_searcher_runs", l2.runs);
    ev.set("layer2_runs_with_matches", l2.nontrivial);
    ev.set("layer3_cli_runs", l3.runs);
    ev.set("option_sets", osets.iter().map(|o| o.show()).collect::<Vec<_>>());
    ev.set(
        "rule",
        format!(
            "layer 1 (explicit-state, all lines): for every token pattern of length <= 3 over the C11 grammar (length <= 2 for the non-core option sets on the quick tier), {} limit/raw-control-character patterns and every ordered pair of {} pool patterns as two -e patterns, x {} option sets (-i/-S, -w, -x, -F, --crlf, --null-data, --no-unicode): (a) product of the DFA of the pattern as written (harness-built from the flag documentation) and of the matcher's final HIR over all lines free of terminator bytes; (b) product of the final HIR's DFA run inside a buffer (look-behind start / previous terminator; followed by \\n, \\r\\n or end of input) and run on the stripped line: same verdict. Witnesses are confirmed on the real Searcher (fast path vs slow path) before they count. layer 2 (enumeration): every byte string over {{a,b,-,\\n,\\r,0xFF,é}} up to length {} x {} patterns x 7 option sets x invert x (slice, reader capacity 1, reader capacity 3): fast path == slow path (passthru) == per-line reference regex. layer 3: rg command line, all flag subsets up to size {} of -i -S -s -w -x -F --crlf --null-data -v x 6 patterns x one or two -e x 4 files; plus zero patterns (an empty -f file) with and without -v.",
            specials.len(), pool.len(), osets.len(), tier.pick(4, 5), L2_PATTERNS.len(), tier.pick(2, 3)
        ),
    );
    ev.set("samples", json!([{"patterns": ["\\w+ab\\w"], "options": "Lf -w"}, {"layer2": {"pattern": "\\B", "opts": "Crlf", "input": "a\\r\\n"}}]));
    ev.assume("regex-syntax translation and regex-automata determinisation are the specification of pattern meaning");
    ev.assume("under --crlf the matcher is documented never to match \\r; 'as written' is judged on lines without \\r and \\n, fast==slow on all lines");
    verdict.finish(ev)
}

fn replay(path: &str) -> ! {
    let text = std::fs::read_to_string(path).unwrap_or_else(|_| machinery_error("cannot read replay"));
    let v: serde_json::Value = serde_json::from_str(&text).unwrap_or_else(|_| machinery_error("bad replay"));
    let o = c11::opts_from_json(&v["opts"]);
    match v["kind"].as_str() {
        Some("fast-vs-slow") | Some("searcher-lines") | Some("spec-vs-built") => {
            let pats: Vec<String> = match v.get("patterns").and_then(|p| p.as_array()) {
                Some(a) => a.iter().map(|x| x.as_str().unwrap_or("").to_string()).collect(),
                None => vec![v["pattern"].as_str().unwrap_or("").to_string()],
            };
            let refs: Vec<&str> = pats.iter().map(|s| s.as_str()).collect();
            let real = o.build(&refs).unwrap_or_else(|_| machinery_error("pattern does not build"));
            let input = if v["kind"] == "spec-vs-built" {
                let mut l = unesc(v["line"].as_str().unwrap_or(""));
                l.push(o.term_bytes().first().copied().unwrap_or(b'\n'));
                l
            } else {
                unesc(v["input"].as_str().unwrap_or(""))
            };
            let invert = v["invert"].as_bool().unwrap_or(false);
            let fast = searcher_lines(&real, &o, &input, false, invert, v["strategy"].as_u64().unwrap_or(0) as u8);
            let slow = searcher_lines(&real, &o, &input, true, invert, 0);
            let (sh, _) = spec_hir_with(&refs, &o, false).unwrap();
            let sr = spec_regex(&sh).unwrap();
            let term = o.term_bytes()[0];
            let tterm = match o.lt {
                Lt::Crlf => Term::Crlf,
                Lt::Nul => Term::Nul,
                _ => Term::Lf,
            };
            let want: Vec<u64> = split_lines(&input, term)
                .iter()
                .enumerate()
                .filter(|(_, &(s, e))| sr.is_match(strip(&input[s..e], tterm)) != invert)
                .map(|(i, _)| i as u64 + 1)
                .collect();
            println!("patterns {:?} options {} input {}\nfast path lines: {:?}\nslow path lines: {:?}\nas written:      {:?}", pats, o.show(), esc(&input), fast, slow, want);
            std::process::exit(if fast == slow && fast.as_ref().ok() == Some(&want) { 0 } else { 1 })
        }
        _ => {
            println!("cli replay: run rg {:?} -e {:?} on a file containing {}", v["flags"], v["patterns"], v["content"]);
            std::process::exit(2)
        }
    }
}
