//! C18 — preprocessor and decompression output is what gets searched;
//! failures surface. Fault enumeration (E5) with the child process as the
//! environment: a helper script whose behaviour (stdout shape, stderr volume,
//! exit status, moment of death) is the alphabet, x how rg consumes it, x
//! --pre-glob selection; and -z on gzip / bzip2 / xz archives truncated at
//! every byte length.

use std::{
    collections::BTreeMap,
    path::{Path, PathBuf},
    process::{Command, Stdio},
    time::{Duration, Instant},
};

use serde_json::{json, Value};

use crate::core::*;

const SCRIPT: &str = r#"#!/bin/sh
f="$1"
emit_err() {
  case "$PRE_ERR" in
    none) ;;
    small) echo "0123456789" >&2 ;;
    big) head -c 1048576 /dev/zero | tr '\0' 'e' >&2 ;;
    huge) head -c 3145728 /dev/zero | tr '\0' 'e' >&2 ;;
  esac
}
emit_out() {
  case "$PRE_OUT" in
    echo) cat "$f" ;;
    upper) tr a-z A-Z < "$f" ;;
    empty) ;;
    bin) head -n 1 "$f"; printf 'nul \000 here\n'; i=0; while [ $i -lt 4000 ]; do echo "padding line $i ......................................"; i=$((i+1)); done; echo "needle at the very end" ;;
    big) cat "$f"; i=0; while [ $i -lt 4000 ]; do echo "padding line $i ......................................"; i=$((i+1)); done; echo "needle at the very end" ;;
  esac
}
die() {
  case "$PRE_EXIT" in
    kill) kill -9 $$ ;;
    pipe) kill -PIPE $$ ;;
    *) exit $PRE_EXIT ;;
  esac
}
# stderr first: a reader that drained stdout before stderr would deadlock on 1 MiB;
# like most programs, the command fails if it cannot write its diagnostics
emit_err || exit 97
case "$PRE_WHEN" in
  before) die ;;
  during) emit_out | head -c 24; die ;;
  after) emit_out; die ;;
esac
"#;

struct Timed {
    stdout: Vec<u8>,
    stderr: Vec<u8>,
    status: i32,
    timed_out: bool,
}

fn run_timed(mut cmd: Command, horizon: Duration) -> Timed {
    cmd.stdin(Stdio::null()).stdout(Stdio::piped()).stderr(Stdio::piped());
    let mut child = cmd.spawn().unwrap_or_else(|_| machinery_error("cannot spawn"));
    let mut so = child.stdout.take().unwrap();
    let mut se = child.stderr.take().unwrap();
    let t1 = std::thread::spawn(move || {
        let mut v = vec![];
        let _ = std::io::Read::read_to_end(&mut so, &mut v);
        v
    });
    let t2 = std::thread::spawn(move || {
        let mut v = vec![];
        let _ = std::io::Read::read_to_end(&mut se, &mut v);
        v
    });
    let start = Instant::now();
    let mut timed_out = false;
    let status = loop {
        match child.try_wait() {
            Ok(Some(s)) => break s.code().unwrap_or(-1),
            Ok(None) => {
                if start.elapsed() > horizon {
                    timed_out = true;
                    let _ = child.kill();
                    let _ = child.wait();
                    break -2;
                }
                std::thread::sleep(Duration::from_millis(2));
            }
            Err(_) => break -3,
        }
    };
    // best effort: the pipes close when the (grand)children are gone
    let stdout = t1.join().unwrap_or_default();
    let stderr = t2.join().unwrap_or_default();
    Timed { stdout, stderr, status, timed_out }
}

#[derive(Clone, Debug)]
struct PreCase {
    out: &'static str,
    err: &'static str,
    exit: &'static str,
    when: &'static str,
    rgmode: &'static str,
    glob: &'static str,
}

#[derive(Default)]
struct Acc {
    runs: u64,
    judged_error: u64,
    judged_ok: u64,
    early_stops: u64,
    disc: Vec<(String, Value)>,
}

fn norm(out: &[u8], from: &str, to: &str) -> String {
    String::from_utf8_lossy(out).replace(from, to)
}

pub fn run(args: &Args) -> ! {
    if let Some(r) = &args.replay {
        replay(r);
    }
    let tier = args.tier;
    let mut ev = Evidence::new(args, "fault_enumeration");
    let mut verdict = Verdict::new("C18");
    let rg = build_rg();
    let scratch = Scratch::new("c18");
    let d = scratch.path.join("t");
    std::fs::create_dir_all(&d).unwrap();
    let content = "first needle\nhay\nsecond needle\nlast line\n";
    std::fs::write(d.join("a.txt"), content).unwrap();
    std::fs::write(d.join("b.dat"), "needle in a file the glob does not select\n").unwrap();
    let script = scratch.path.join("pre.sh");
    std::fs::write(&script, SCRIPT).unwrap();
    {
        use std::os::unix::fs::PermissionsExt;
        std::fs::set_permissions(&script, std::fs::Permissions::from_mode(0o755)).unwrap();
    }
    let notexec = scratch.path.join("notexec.sh");
    std::fs::write(&notexec, SCRIPT).unwrap();
    let horizon = Duration::from_secs(10);

    // ---- the --pre grid -------------------------------------------------------
    let mut cases: Vec<PreCase> = vec![];
    for out in ["echo", "upper", "empty", "big", "bin"] {
        for err in ["none", "small", "big", "huge"] {
            for exit in ["0", "1", "2", "255", "kill", "141", "pipe"] {
                for when in ["before", "during", "after"] {
                    for rgmode in ["full", "-m1", "-q", "-l", "count", "implicit", "heading", "parallel", "json"] {
                        for glob in ["*.txt", "none", "!*.dat", "*.dat", "!*.txt"] {
                            if tier == Tier::Quick {
                                // one fault dimension at a time around a base point, plus all of {exit x when x rgmode}
                                let base = (out == "upper") as u8 + (err == "none") as u8 + (glob == "*.txt") as u8;
                                if base < 2 {
                                    continue;
                                }
                            }
                            cases.push(PreCase { out, err, exit, when, rgmode, glob });
                        }
                    }
                }
            }
        }
    }
    let total = std::sync::Mutex::new(Acc::default());
    par_fold(
        cases.len(),
        2,
        || (),
        |_, ci| {
            let c = &cases[ci];
            let mut acc = Acc::default();
            let envs = [("PRE_OUT", c.out), ("PRE_ERR", c.err), ("PRE_EXIT", c.exit), ("PRE_WHEN", c.when)];
            // which files the command is applied to (override-glob semantics: a set
            // of only negated globs selects everything they do not match)
            let selected = |f: &str| -> bool {
                match c.glob {
                    "none" => true,
                    "*.txt" | "!*.dat" => f == "a.txt",
                    _ => f == "b.dat", // "*.dat" | "!*.txt"
                }
            };
            let files = ["a.txt", "b.dat"];
            // what the command writes for each selected file, captured outside rg;
            // expected results: rg on exactly those bytes under the same name
            let refdir = scratch.path.join(format!("ref{}", ci));
            std::fs::create_dir_all(&refdir).unwrap();
            let mut caps: Vec<Option<Timed>> = vec![];
            for f in files {
                if selected(f) {
                    let mut direct = Command::new(&script);
                    direct.current_dir(&d).arg(f);
                    for (k, v) in envs.iter() {
                        direct.env(k, v);
                    }
                    let cap = run_timed(direct, horizon);
                    std::fs::write(refdir.join(f), &cap.stdout).unwrap();
                    caps.push(Some(cap));
                } else {
                    std::fs::copy(d.join(f), refdir.join(f)).unwrap();
                    caps.push(None);
                }
            }
            let mode_args: Vec<&str> = match c.rgmode {
                "full" | "implicit" | "parallel" => vec!["-n"],
                "json" => vec!["--json"],
                "heading" => vec!["-n", "--heading"],
                "-m1" => vec!["-n", "-m1"],
                "-q" => vec!["-q"],
                "-l" => vec!["-l"],
                _ => vec!["-c"],
            };
            let mut refcmd = Command::new(&rg);
            refcmd.current_dir(&refdir).args(["--no-config", "--color", "never", "-j1", "--sort", "path"]).args(&mode_args).arg("(?i)needle");
            if c.rgmode != "implicit" {
                refcmd.args(files);
            }
            let want = run_timed(refcmd, horizon);
            let mut cmd = Command::new(&rg);
            // ("parallel": the multi-threaded driver; everything else goes
            // through the single-threaded one)
            if c.rgmode == "parallel" {
                cmd.current_dir(&d).args(["--no-config", "--color", "never", "-j2"]).arg("--pre").arg(&script);
            } else {
                cmd.current_dir(&d).args(["--no-config", "--color", "never", "-j1", "--sort", "path"]).arg("--pre").arg(&script);
            }
            if c.glob != "none" {
                cmd.args(["--pre-glob", c.glob]);
            }
            cmd.args(&mode_args).arg("(?i)needle");
            if c.rgmode != "implicit" {
                cmd.args(files);
            }
            for (k, v) in envs.iter() {
                cmd.env(k, v);
            }
            let got = run_timed(cmd, horizon);
            acc.runs += 1;
            let mut why: Vec<String> = vec![];
            if got.timed_out {
                why.push("rg did not finish within the horizon (blocked)".into());
            }
            let stderr = String::from_utf8_lossy(&got.stderr).to_string();
            let early_stop_flag = matches!(c.rgmode, "-m1" | "-q" | "-l") || (c.out == "bin" && !matches!(c.rgmode, "count" | "json"));
            let mut any_failed_after_eof = false;
            let mut all_ok = true;
            let mut any_early = false;
            for (fi, f) in files.iter().enumerate() {
                // a file's records: the lines carrying its name, or under
                // --heading the block that starts with the name on its own line
                let records = |out: &[u8]| -> Vec<String> {
                    let text = String::from_utf8_lossy(out).to_string();
                    if c.rgmode == "heading" {
                        text.lines().skip_while(|l| l != f).take_while(|l| !l.is_empty()).map(|s| s.to_string()).collect()
                    } else if c.rgmode == "json" {
                        // the begin / match messages attributed to this file
                        // (end and summary messages carry timings)
                        let tag = format!("\"path\":{{\"text\":\"{}\"}}", f);
                        text.lines().filter(|l| l.contains(&tag) && !l.starts_with("{\"type\":\"end\"")).map(|s| s.to_string()).collect()
                    } else {
                        text.lines().filter(|l| l.starts_with(f)).map(|s| s.to_string()).collect()
                    }
                };
                let got_f: Vec<String> = records(&got.stdout);
                let want_f: Vec<String> = records(&want.stdout);
                let names_f = stderr.lines().any(|l| l.contains(f));
                match &caps[fi] {
                    None => {
                        if c.rgmode != "-q" && got_f != want_f && !got.timed_out {
                            why.push(format!("{} is not selected by --pre-glob {} but was not searched directly: {:?} vs {:?}", f, c.glob, got_f, want_f));
                        }
                    }
                    Some(cap) => {
                        let child_failed = cap.status != 0;
                        all_ok &= !child_failed;
                        // a failed command's file keeps at most what was printed before the
                        // failure surfaced ("search result kept only if close also succeeded")
                        let acceptable = if child_failed { want_f.starts_with(&got_f) } else { got_f == want_f };
                        // where binary detection fires depends on how the bytes arrive (a pipe
                        // delivers the first line before the NUL; a file is sniffed whole):
                        // C14's subject, so the `bin` shape is judged on errors and blocking only
                        if c.rgmode != "-q" && c.out != "bin" && !acceptable && !got.timed_out {
                            why.push(format!("the results for {} differ from searching the bytes the command wrote: {:?} vs {:?}", f, got_f, want_f));
                        }
                        // did rg consume the output to its end? certainly when it does not
                        // stop early; with an early-stop flag only if nothing matched
                        let matched_in_output = String::from_utf8_lossy(&cap.stdout).to_lowercase().contains("needle");
                        let reads_to_eof = !early_stop_flag || !matched_in_output;
                        // under -q the whole run ends at the first match: later files are not searched
                        if c.rgmode == "-q" && fi > 0 {
                            continue;
                        }
                        if reads_to_eof {
                            if child_failed {
                                any_failed_after_eof = true;
                                if !names_f {
                                    why.push(format!("the command failed for {} after its output was consumed, but no diagnostic names the file", f));
                                }
                            }
                        } else {
                            any_early = true;
                            // stopped early: a command that is terminated because rg stopped
                            // reading is not an error — judged when its stderr is empty
                            if c.err == "none" && c.when == "after" && (c.out == "big" || (c.out == "bin" && !matches!(c.rgmode, "count" | "json"))) && names_f {
                                why.push(format!("stopping early on {} was treated as an error: {:?}", f, &stderr[..stderr.len().min(160)]));
                            }
                        }
                    }
                }
            }
            if any_failed_after_eof {
                acc.judged_error += 1;
                if got.status != 2 && !(c.rgmode == "-q" && got.status == 0) {
                    why.push(format!("exit status {} after a failed command (expected 2)", got.status));
                }
            } else if all_ok {
                acc.judged_ok += 1;
                if !stderr.is_empty() && c.err == "none" {
                    why.push(format!("a diagnostic although the command succeeded: {:?}", &stderr[..stderr.len().min(120)]));
                }
                // (a command that had written to stderr and is then cut off
                // because rg stopped reading early: whether that counts as a
                // failure is not specified by the statement and depends on a
                // race between the command and the closing pipe — executed,
                // not judged, DESIGN.md §8)
                let cut_off_with_stderr = any_early && c.err != "none";
                // (the NUL-bearing shape: whether anything is reported before
                // binary detection fires — and with it the status — depends on
                // how the bytes arrive, see above)
                if got.status != want.status && !cut_off_with_stderr && c.out != "bin" {
                    why.push(format!("exit status {} (searching the same bytes directly gives {})", got.status, want.status));
                }
            } else if any_early && c.err == "none" && c.when == "after" && (c.out == "big" || (c.out == "bin" && !matches!(c.rgmode, "count" | "json"))) && got.status == 2 {
                why.push("stopping early was treated as an error (status 2)".into());
            }
            if any_early {
                acc.early_stops += 1;
            }
            let cap = caps.iter().flatten().next().unwrap();
            if !why.is_empty() && acc.disc.len() < 10 {
                acc.disc.push((
                    format!("pre | {:?}", c),
                    json!({"kind":"pre","case":format!("{:?}", c),"why":why,"status":got.status,"stdout":norm(&got.stdout[..got.stdout.len().min(300)], "", ""),
                           "stderr":stderr[..stderr.len().min(300)].to_string(),"command_exit":cap.status,"command_stdout_bytes":cap.stdout.len(),
                           "expected_stdout":norm(&want.stdout[..want.stdout.len().min(300)], "", "")}),
                ));
            }
            let _ = std::fs::remove_dir_all(&refdir);
            let mut t = total.lock().unwrap();
            t.runs += acc.runs;
            t.judged_error += acc.judged_error;
            t.judged_ok += acc.judged_ok;
            t.early_stops += acc.early_stops;
            t.disc.extend(acc.disc);
        },
        |_| {},
    );
    let mut total = total.into_inner().unwrap();

    // ---- commands that cannot be started --------------------------------------
    for (name, pre) in [("missing command", scratch.path.join("no-such-command")), ("not executable", notexec.clone())] {
        let mut cmd = Command::new(&rg);
        cmd.current_dir(&d).args(["--no-config", "-j1", "--sort", "path", "-n"]).arg("--pre").arg(&pre).args(["--pre-glob", "*.txt", "needle", "a.txt", "b.dat"]);
        let got = run_timed(cmd, horizon);
        total.runs += 1;
        total.judged_error += 1;
        let stderr = String::from_utf8_lossy(&got.stderr).to_string();
        let mut why = vec![];
        if got.status != 2 {
            why.push(format!("exit status {} (expected 2)", got.status));
        }
        if !stderr.lines().any(|l| l.contains("a.txt")) {
            why.push("no diagnostic naming the file".into());
        }
        if !String::from_utf8_lossy(&got.stdout).contains("b.dat") {
            why.push("the file not selected by --pre-glob was not searched".into());
        }
        if !why.is_empty() {
            total.disc.push((format!("pre-spawn | {}", name), json!({"kind":"pre-spawn","case":name,"why":why,"status":got.status,"stderr":stderr})));
        }
    }

    // ---- -z: valid and truncated archives -------------------------------------
    let zd = scratch.path.join("z");
    std::fs::create_dir_all(&zd).unwrap();
    let plain = "first needle\nhay\nsecond needle\n";
    std::fs::write(zd.join("plain.txt"), plain).unwrap();
    let mut zruns = 0u64;
    for (ext, tool) in [("gz", "gzip"), ("bz2", "bzip2"), ("xz", "xz")] {
        let out = Command::new(tool).arg("-c").arg(zd.join("plain.txt")).output();
        let Ok(out) = out else { continue };
        if !out.status.success() {
            continue;
        }
        let archive = out.stdout;
        let maxk = archive.len();
        let ks: Vec<usize> = (0..=maxk).collect();
        for k in ks {
            let name = format!("t{}.{}", k, ext);
            std::fs::write(zd.join(&name), &archive[..k]).unwrap();
            // what the decompressor writes for this file, captured directly
            let cap = run_timed(
                {
                    let mut c = Command::new(tool);
                    c.args(["-d", "-c"]).arg(zd.join(&name));
                    c
                },
                horizon,
            );
            let refdir = scratch.path.join(format!("zref-{}-{}", ext, k));
            std::fs::create_dir_all(&refdir).unwrap();
            std::fs::write(refdir.join(&name), &cap.stdout).unwrap();
            let want = run_timed(
                {
                    let mut c = Command::new(&rg);
                    c.current_dir(&refdir).args(["--no-config", "--color", "never", "-n", "-H", "needle"]).arg(&name);
                    c
                },
                horizon,
            );
            let got = run_timed(
                {
                    let mut c = Command::new(&rg);
                    c.current_dir(&zd).args(["--no-config", "--color", "never", "-z", "-n", "-H", "needle"]).arg(&name);
                    c
                },
                horizon,
            );
            zruns += 1;
            let stderr = String::from_utf8_lossy(&got.stderr).to_string();
            let mut why = vec![];
            if got.timed_out {
                why.push("rg -z did not finish within the horizon".to_string());
            }
            let acceptable = if cap.status != 0 {
                let w: Vec<&[u8]> = want.stdout.split_inclusive(|&b| b == b'\n').collect();
                let g: Vec<&[u8]> = got.stdout.split_inclusive(|&b| b == b'\n').collect();
                w.starts_with(&g)
            } else {
                got.stdout == want.stdout
            };
            if !acceptable {
                why.push("results differ from searching what the decompressor wrote".into());
            }
            if cap.status != 0 {
                total.judged_error += 1;
                if got.status != 2 || !stderr.lines().any(|l| l.contains(&name)) {
                    why.push(format!("the decompressor failed (status {}) but rg exits {} / names the file: {}", cap.status, got.status, stderr.lines().any(|l| l.contains(&name))));
                }
            } else {
                total.judged_ok += 1;
                if got.status != want.status || !stderr.is_empty() {
                    why.push(format!("status {} vs {} / unexpected diagnostic", got.status, want.status));
                }
            }
            if !why.is_empty() && total.disc.len() < 30 {
                total.disc.push((
                    format!("z | {} truncated to {} of {} bytes", ext, k, maxk),
                    json!({"kind":"z","format":ext,"truncated_to":k,"archive_len":maxk,"why":why,"status":got.status,"stdout":String::from_utf8_lossy(&got.stdout),"stderr":stderr,
                           "decompressor_exit":cap.status,"decompressor_output":String::from_utf8_lossy(&cap.stdout)}),
                ));
            }
            let _ = std::fs::remove_dir_all(&refdir);
            let _ = std::fs::remove_file(zd.join(&name));
        }
    }
    // a decompressor that is noisy on stderr (a stand-in `gzip` first on PATH
    // that writes N KiB of diagnostics before its output): large stderr must
    // never block the search, through -z as through --pre
    {
        use std::os::unix::fs::PermissionsExt;
        let shim_dir = scratch.path.join("shim");
        std::fs::create_dir_all(&shim_dir).unwrap();
        let real_gzip = String::from_utf8_lossy(&Command::new("sh").args(["-c", "command -v gzip"]).output().map(|o| o.stdout).unwrap_or_default()).trim().to_string();
        if !real_gzip.is_empty() {
            let shim = shim_dir.join("gzip");
            std::fs::write(&shim, format!("#!/bin/sh\nhead -c $((NOISE_KIB * 1024)) /dev/zero | tr '\\0' 'e' >&2\nexec {} \"$@\"\n", real_gzip)).unwrap();
            std::fs::set_permissions(&shim, std::fs::Permissions::from_mode(0o755)).unwrap();
            let out = Command::new(&real_gzip).arg("-c").arg(zd.join("plain.txt")).output().unwrap_or_else(|_| machinery_error("gzip"));
            std::fs::write(zd.join("noisy.gz"), &out.stdout).unwrap();
            let path_env = format!("{}:{}", shim_dir.display(), std::env::var("PATH").unwrap_or_default());
            for kib in [0usize, 1, 63, 64, 65, 128, 1024, 4096] {
                for threads in ["-j1", "-j2"] {
                    let got = run_timed(
                        {
                            let mut c = Command::new(&rg);
                            c.current_dir(&zd).env("PATH", &path_env).env("NOISE_KIB", kib.to_string()).args(["--no-config", "--color", "never", "-z", "-n", threads, "needle", "noisy.gz", "plain.txt"]);
                            c
                        },
                        horizon,
                    );
                    zruns += 1;
                    total.judged_ok += 1;
                    let text = String::from_utf8_lossy(&got.stdout).to_string();
                    let mut why = vec![];
                    if got.timed_out {
                        why.push("rg -z did not finish within the horizon (blocked on the decompressor's stderr)".to_string());
                    } else {
                        if got.status != 0 {
                            why.push(format!("exit status {} (the decompressor succeeded)", got.status));
                        }
                        if text.lines().filter(|l| l.starts_with("noisy.gz:")).count() != 2 {
                            why.push("the results of the compressed file are not the two matching lines".to_string());
                        }
                    }
                    if !why.is_empty() {
                        total.disc.push((
                            format!("z | decompressor writes {} KiB to stderr | {}", kib, threads),
                            json!({"kind":"z-noisy","stderr_kib":kib,"threads":threads,"why":why,"status":got.status,"stdout":text,"timed_out":got.timed_out}),
                        ));
                    }
                }
            }
        }
    }
    // unrecognised extension and a plain file under -z are searched directly
    {
        std::fs::write(zd.join("data.zzz"), plain).unwrap();
        for f in ["data.zzz", "plain.txt"] {
            let got = run_timed(
                {
                    let mut c = Command::new(&rg);
                    c.current_dir(&zd).args(["--no-config", "-z", "-c", "needle", f]);
                    c
                },
                horizon,
            );
            zruns += 1;
            if got.status != 0 || String::from_utf8_lossy(&got.stdout).trim() != "2" || !got.stderr.is_empty() {
                total.disc.push((format!("z | {} searched directly", f), json!({"kind":"z-direct","file":f,"status":got.status,"stdout":String::from_utf8_lossy(&got.stdout),"stderr":String::from_utf8_lossy(&got.stderr)})));
            }
        }
    }
    total.runs += zruns;
    for (k, v) in total.disc.iter() {
        verdict.discrepancy(None, k, v.clone());
    }
    if total.judged_error == 0 || total.judged_ok == 0 || total.early_stops == 0 || zruns == 0 {
        machinery_error("C18: a mandatory coverage counter is zero");
    }
    ev.set("evaluations", total.runs);
    ev.set("distinct_nontrivial", total.judged_error + total.early_stops);
    ev.set("exhaustive", tier == Tier::Thorough);
    ev.set("pre_cases", cases.len());
    ev.set("decompression_runs", zruns);
    ev.set("runs_judged_command_failed_after_eof", total.judged_error);
    ev.set("runs_judged_command_succeeded", total.judged_ok);
    ev.set("runs_where_rg_stopped_reading_early", total.early_stops);
    ev.set(
        "rule",
        format!(
            "--pre with a helper script whose behaviour is the alphabet: stdout in {{the file, upper-cased, empty, the file + 4000 lines (220 KiB), a line + a NUL + 4000 lines}}, stderr in {{none, 10 bytes, 1 MiB, 3 MiB — written BEFORE stdout}}, exit in {{0,1,2,255, kill -9}} at {{before, during, after}} its output; rg consuming in {{full, -m1, -q, -l, -c, --heading, implicit directory search (binary detection quits at the NUL)}}; --pre-glob in {{*.txt, absent, !*.dat (negated only), *.dat, !*.txt}}{}: {} cases; plus a missing and a non-executable command. -z: gzip, bzip2 and xz archives of a 3-line file truncated to EVERY byte length 0..len, an unrecognised extension and a plain file. Oracle: the results equal `rg` run on the bytes the command / decompressor wrote when run once outside rg (same file name); files not selected by --pre-glob are searched directly; command failure after its output was consumed, or failure to start => a diagnostic naming the file and status 2; stopping early with an empty stderr is not an error; every run ends within 10 s (1 MiB of stderr must not block).",
            if tier == Tier::Quick { " (quick: one dimension varied at a time around the base point)" } else { " (full product)" },
            cases.len()
        ),
    );
    ev.set("samples", json!([{"pre": "PRE_OUT=echo PRE_ERR=big PRE_EXIT=255 PRE_WHEN=after, rg -m1"}, {"z": "xz archive truncated to 17 of 92 bytes"}]));
    ev.assume("the early-stop + non-empty-stderr cell is racy in the real system and unspecified by the statement: executed, not judged");
    drop(scratch);
    let _ = (BTreeMap::<u8, u8>::new(), PathBuf::new(), Path::new(""));
    verdict.finish(ev)
}

fn replay(path: &str) -> ! {
    let text = std::fs::read_to_string(path).unwrap_or_else(|_| machinery_error("cannot read replay"));
    let v: Value = serde_json::from_str(&text).unwrap_or_else(|_| machinery_error("bad replay"));
    println!("{}", serde_json::to_string_pretty(&v).unwrap());
    std::process::exit(2)
}
