//! A miniature in-process `rg`: matcher, searcher and printers configured the
//! way crates/core/flags/hiargs.rs configures them, writing to a Vec<u8>.
//! Shared by C09, C10 and C19.

use grep_printer::{JSONBuilder, StandardBuilder, Stats, SummaryBuilder, SummaryKind};
use grep_regex::{RegexMatcher, RegexMatcherBuilder};
use grep_searcher::{BinaryDetection, MmapChoice, Searcher, SearcherBuilder};

#[derive(Clone, Debug, Default, PartialEq, Eq, Hash, PartialOrd, Ord)]
pub struct PFlags {
    pub ignore_case: bool,
    pub word: bool,
    pub whole_line: bool,
    pub invert: bool,
    pub multiline: bool,
    pub dotall: bool,
    pub crlf: bool,
    pub max_count: Option<u64>,
    pub before: usize,
    pub after: usize,
    pub passthru: bool,
}

impl PFlags {
    pub fn show(&self) -> String {
        let mut v = vec![];
        if self.ignore_case {
            v.push("-i".to_string());
        }
        if self.word {
            v.push("-w".into());
        }
        if self.whole_line {
            v.push("-x".into());
        }
        if self.invert {
            v.push("-v".into());
        }
        if self.multiline {
            v.push("-U".into());
        }
        if self.dotall {
            v.push("--multiline-dotall".into());
        }
        if self.crlf {
            v.push("--crlf".into());
        }
        if let Some(m) = self.max_count {
            v.push(format!("-m{}", m));
        }
        if self.before > 0 {
            v.push(format!("-B{}", self.before));
        }
        if self.after > 0 {
            v.push(format!("-A{}", self.after));
        }
        if self.passthru {
            v.push("--passthru".into());
        }
        v.join(" ")
    }
    pub fn cli_args(&self) -> Vec<String> {
        self.show().split_whitespace().map(|s| s.to_string()).collect()
    }
}

pub fn build_matcher(pats: &[&str], f: &PFlags) -> Result<RegexMatcher, String> {
    let mut b = RegexMatcherBuilder::new();
    b.multi_line(true).unicode(true).octal(false).case_insensitive(f.ignore_case);
    if f.whole_line {
        b.whole_line(true);
    } else if f.word {
        b.word(true);
    }
    if f.multiline {
        b.dot_matches_new_line(f.dotall);
        if f.crlf {
            b.crlf(true).line_terminator(None);
        }
    } else {
        b.line_terminator(Some(b'\n')).dot_matches_new_line(false);
        if f.crlf {
            b.crlf(true);
        }
    }
    b.build_many(pats).map_err(|e| e.to_string())
}

pub fn build_searcher(f: &PFlags, line_number: bool) -> Searcher {
    let mut b = SearcherBuilder::new();
    b.line_terminator(if f.crlf { grep_matcher::LineTerminator::crlf() } else { grep_matcher::LineTerminator::byte(b'\n') })
        .invert_match(f.invert)
        .line_number(line_number)
        .multi_line(f.multiline)
        .memory_map(MmapChoice::never())
        .binary_detection(BinaryDetection::none());
    if f.passthru {
        b.passthru(true);
    } else {
        b.before_context(f.before).after_context(f.after);
    }
    b.build()
}

#[derive(Clone, Debug, Default, PartialEq, Eq)]
pub struct StdOpts {
    pub line_number: bool,
    pub byte_offset: bool,
    pub column: bool,
    pub vimgrep: bool,
    pub only_matching: bool,
    pub heading: bool,
    pub with_filename: bool,
    pub null: bool,
    pub replacement: Option<Vec<u8>>,
}

#[derive(Clone, Debug, PartialEq, Eq)]
pub enum Mode {
    Standard(StdOpts),
    Count,
    CountMatches,
    FilesWithMatches,
    FilesWithoutMatch,
    Quiet,
    Json,
}

pub struct RunOut {
    pub out: Vec<u8>,
    pub has_match: bool,
    pub matches: Option<u64>,
    pub matched_lines: Option<u64>,
    pub error: Option<String>,
}

fn stats_pair(s: Option<&Stats>) -> (Option<u64>, Option<u64>) {
    match s {
        Some(s) => (Some(s.matches()), Some(s.matched_lines())),
        None => (None, None),
    }
}

/// Search `content` (as file "f") with `m` and print in `mode`; `stats`
/// mirrors --stats.
pub fn run_mode(content: &[u8], m: &RegexMatcher, f: &PFlags, mode: &Mode, stats: bool) -> RunOut {
    // a panic of the subject is an observation ("no result, crashed"), not a
    // failure of the harness
    match std::panic::catch_unwind(std::panic::AssertUnwindSafe(|| run_mode_inner(content, m, f, mode, stats))) {
        Ok(r) => r,
        Err(e) => {
            let msg = e.downcast_ref::<String>().cloned().or_else(|| e.downcast_ref::<&str>().map(|s| s.to_string())).unwrap_or_else(|| "panic".into());
            RunOut { out: vec![], has_match: false, matches: None, matched_lines: None, error: Some(format!("PANIC: {}", msg)) }
        }
    }
}

fn run_mode_inner(content: &[u8], m: &RegexMatcher, f: &PFlags, mode: &Mode, stats: bool) -> RunOut {
    match mode {
        Mode::Standard(o) => {
            let mut b = StandardBuilder::new();
            b.byte_offset(o.byte_offset)
                .column(o.column || o.vimgrep)
                .heading(o.heading)
                .max_matches(f.max_count)
                .only_matching(o.only_matching)
                .path(o.with_filename)
                .path_terminator(if o.null { Some(0) } else { None })
                .per_match_one_line(true)
                .per_match(o.vimgrep)
                .replacement(o.replacement.clone())
                .stats(stats);
            let mut p = b.build_no_color(vec![]);
            let mut s = build_searcher(f, o.line_number || o.vimgrep);
            let (res, has, st) = {
                let mut sink = p.sink_with_path(m, "f");
                let res = s.search_slice(m, content, &mut sink);
                (res, sink.has_match(), stats_pair(sink.stats()))
            };
            RunOut { out: p.into_inner().into_inner(), has_match: has, matches: st.0, matched_lines: st.1, error: res.err().map(|e| e.to_string()) }
        }
        Mode::Json => {
            let mut p = JSONBuilder::new().pretty(false).max_matches(f.max_count).always_begin_end(false).build(vec![]);
            let mut s = build_searcher(f, true);
            let (res, has, st) = {
                let mut sink = p.sink_with_path(m, "f");
                let res = s.search_slice(m, content, &mut sink);
                (res, sink.has_match(), stats_pair(Some(sink.stats())))
            };
            RunOut { out: p.into_inner(), has_match: has, matches: st.0, matched_lines: st.1, error: res.err().map(|e| e.to_string()) }
        }
        _ => {
            let kind = match mode {
                Mode::Count => SummaryKind::Count,
                Mode::CountMatches => SummaryKind::CountMatches,
                Mode::FilesWithMatches => SummaryKind::PathWithMatch,
                Mode::FilesWithoutMatch => SummaryKind::PathWithoutMatch,
                _ => SummaryKind::Quiet,
            };
            let mut b = SummaryBuilder::new();
            b.kind(kind).max_matches(f.max_count).exclude_zero(true).path(false).stats(stats);
            let mut p = b.build_no_color(vec![]);
            let mut s = build_searcher(f, true);
            let (res, has, st) = {
                let mut sink = p.sink_with_path(m, "f");
                let res = s.search_slice(m, content, &mut sink);
                (res, sink.has_match(), stats_pair(sink.stats()))
            };
            RunOut { out: p.into_inner().into_inner(), has_match: has, matches: st.0, matched_lines: st.1, error: res.err().map(|e| e.to_string()) }
        }
    }
}
