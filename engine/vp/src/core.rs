//! Shared plumbing: argument parsing, evidence and replay files, known
//! findings, sharded parallel enumeration, scratch directories.

use std::{
    collections::BTreeMap,
    path::{Path, PathBuf},
    sync::atomic::{AtomicUsize, Ordering},
    time::Instant,
};

use serde_json::{json, Map, Value};

pub const VERIF: &str = "/verif";
pub const REPO: &str = "/repo";

#[derive(Clone, Copy, Debug, PartialEq, Eq)]
pub enum Tier {
    Quick,
    Thorough,
}

impl Tier {
    pub fn name(&self) -> &'static str {
        match self {
            Tier::Quick => "quick",
            Tier::Thorough => "thorough",
        }
    }
    pub fn pick<T>(&self, quick: T, thorough: T) -> T {
        match self {
            Tier::Quick => quick,
            Tier::Thorough => thorough,
        }
    }
}

#[derive(Clone, Debug)]
pub struct Args {
    pub prop: String,
    pub tier: Tier,
    pub replay: Option<String>,
    pub seed: u64,
    pub rest: Vec<String>,
}

impl Args {
    pub fn parse() -> Args {
        let mut it = std::env::args().skip(1);
        let prop = it.next().unwrap_or_else(|| usage());
        let mut tier = match std::env::var("VERIF_TIER").ok().as_deref() {
            Some("thorough") => Tier::Thorough,
            _ => Tier::Quick,
        };
        let mut replay = None;
        let mut rest = vec![];
        while let Some(a) = it.next() {
            match a.as_str() {
                "--tier" => {
                    tier = match it.next().as_deref() {
                        Some("quick") => Tier::Quick,
                        Some("thorough") => Tier::Thorough,
                        _ => usage(),
                    }
                }
                "--replay" => replay = Some(it.next().unwrap_or_else(|| usage())),
                _ => rest.push(a),
            }
        }
        let seed = std::env::var("VERIF_SEED")
            .ok()
            .and_then(|s| s.parse().ok())
            .unwrap_or(0);
        Args { prop, tier, replay, seed, rest }
    }

    pub fn flag(&self, name: &str) -> bool {
        self.rest.iter().any(|a| a == name)
    }

    pub fn opt(&self, name: &str) -> Option<&str> {
        let mut it = self.rest.iter();
        while let Some(a) = it.next() {
            if a == name {
                return it.next().map(|s| s.as_str());
            }
        }
        None
    }
}

fn usage() -> ! {
    eprintln!("usage: vp <property|tool> [--tier quick|thorough] [--replay FILE] [...]");
    std::process::exit(64)
}

/// Exit code for "the machinery itself failed" (never a verdict).
pub const EXIT_MACHINERY: i32 = 3;

/// A liveness counter for watchdogs: long-running loops bump it.
pub static PROGRESS: std::sync::atomic::AtomicU64 = std::sync::atomic::AtomicU64::new(0);

pub fn tick() {
    PROGRESS.fetch_add(1, std::sync::atomic::Ordering::Relaxed);
}

pub fn machinery_error(msg: &str) -> ! {
    eprintln!("MACHINERY-ERROR: {}", msg);
    std::process::exit(EXIT_MACHINERY)
}

/// Number of worker threads / shards to use.
pub fn ncpu() -> usize {
    std::env::var("VERIF_JOBS")
        .ok()
        .and_then(|s| s.parse().ok())
        .unwrap_or_else(|| {
            std::thread::available_parallelism().map(|n| n.get()).unwrap_or(4)
        })
}

/// Run `f(i)` for every i in 0..n on `ncpu()` threads (dynamic chunking) and
/// fold the per-thread accumulators with `merge`.
pub fn par_fold<A, F, M>(n: usize, chunk: usize, make: impl Fn() -> A + Sync, f: F, merge: M)
where
    A: Send,
    F: Fn(&mut A, usize) + Sync,
    M: FnMut(A),
{
    par_fold_n(ncpu(), n, chunk, make, f, merge)
}

/// `par_fold` on at most `max_threads` threads.
pub fn par_fold_n<A, F, M>(
    max_threads: usize,
    n: usize,
    chunk: usize,
    make: impl Fn() -> A + Sync,
    f: F,
    mut merge: M,
) where
    A: Send,
    F: Fn(&mut A, usize) + Sync,
    M: FnMut(A),
{
    let next = AtomicUsize::new(0);
    let threads = max_threads.min(n.max(1));
    let accs: Vec<A> = std::thread::scope(|s| {
        let hs: Vec<_> = (0..threads)
            .map(|_| {
                s.spawn(|| {
                    let mut acc = make();
                    loop {
                        let lo = next.fetch_add(chunk, Ordering::Relaxed);
                        if lo >= n {
                            break;
                        }
                        let hi = (lo + chunk).min(n);
                        for i in lo..hi {
                            f(&mut acc, i);
                        }
                    }
                    acc
                })
            })
            .collect();
        hs.into_iter()
            .map(|h| match h.join() {
                Ok(a) => a,
                Err(_) => machinery_error("worker thread panicked"),
            })
            .collect()
    });
    for a in accs {
        merge(a);
    }
}

/// Odometer over `len` positions with `base` symbols each; visits all
/// sequences in simplest-first order (by length is up to the caller).
pub fn odometer(base: usize, len: usize, mut f: impl FnMut(&[usize])) {
    let mut idx = vec![0usize; len];
    loop {
        f(&idx);
        let mut i = len;
        loop {
            if i == 0 {
                return;
            }
            i -= 1;
            idx[i] += 1;
            if idx[i] < base {
                break;
            }
            idx[i] = 0;
        }
    }
}

/// All sequences over `base` symbols with length in `0..=maxlen`, shortest
/// first, decoded from a single index (for sharding by index).
pub fn seq_count(base: usize, maxlen: usize) -> usize {
    let mut total = 0usize;
    let mut p = 1usize;
    for _ in 0..=maxlen {
        total += p;
        p = p.saturating_mul(base);
    }
    total
}

pub fn seq_decode(base: usize, mut index: usize, out: &mut Vec<usize>) {
    out.clear();
    let mut len = 0usize;
    let mut p = 1usize;
    while index >= p {
        index -= p;
        p *= base;
        len += 1;
    }
    out.resize(len, 0);
    for i in (0..len).rev() {
        out[i] = index % base;
        index /= base;
    }
}

pub fn esc(bytes: &[u8]) -> String {
    let mut s = String::new();
    for &b in bytes {
        match b {
            b'\n' => s.push_str("\\n"),
            b'\r' => s.push_str("\\r"),
            b'\t' => s.push_str("\\t"),
            b'\\' => s.push_str("\\\\"),
            0x20..=0x7e => s.push(b as char),
            _ => s.push_str(&format!("\\x{:02X}", b)),
        }
    }
    s
}

pub fn unesc(s: &str) -> Vec<u8> {
    let b = s.as_bytes();
    let mut out = vec![];
    let mut i = 0;
    while i < b.len() {
        if b[i] == b'\\' && i + 1 < b.len() {
            match b[i + 1] {
                b'n' => {
                    out.push(b'\n');
                    i += 2;
                }
                b'r' => {
                    out.push(b'\r');
                    i += 2;
                }
                b't' => {
                    out.push(b'\t');
                    i += 2;
                }
                b'\\' => {
                    out.push(b'\\');
                    i += 2;
                }
                b'x' if i + 3 < b.len() + 0 && i + 4 <= b.len() => {
                    let h = std::str::from_utf8(&b[i + 2..i + 4]).unwrap_or("00");
                    out.push(u8::from_str_radix(h, 16).unwrap_or(0));
                    i += 4;
                }
                _ => {
                    out.push(b[i]);
                    i += 1;
                }
            }
        } else {
            out.push(b[i]);
            i += 1;
        }
    }
    out
}

/// Evidence file writer.
pub struct Evidence {
    pub prop: String,
    pub tier: Tier,
    pub seed: u64,
    pub level: &'static str,
    pub coverage: Map<String, Value>,
    pub assumptions: Vec<String>,
    pub violations: usize,
    pub known: usize,
    start: Instant,
}

impl Evidence {
    pub fn new(args: &Args, level: &'static str) -> Evidence {
        Evidence {
            prop: args.prop.to_uppercase(),
            tier: args.tier,
            seed: args.seed,
            level,
            coverage: Map::new(),
            assumptions: vec![],
            violations: 0,
            known: 0,
            start: Instant::now(),
        }
    }

    pub fn set(&mut self, key: &str, v: impl Into<Value>) {
        self.coverage.insert(key.to_string(), v.into());
    }

    pub fn assume(&mut self, s: &str) {
        self.assumptions.push(s.to_string());
    }

    pub fn elapsed(&self) -> f64 {
        self.start.elapsed().as_secs_f64()
    }

    pub fn write(&self) {
        let dir = Path::new(VERIF).join("evidence");
        let _ = std::fs::create_dir_all(&dir);
        let v = json!({
            "property_id": self.prop,
            "tier": self.tier.name(),
            "seed": self.seed,
            "level": self.level,
            "coverage": Value::Object(self.coverage.clone()),
            "assumptions": self.assumptions,
            "wall_s": (self.elapsed() * 1000.0).round() / 1000.0,
            "violations": self.violations,
            "known_findings_seen": self.known,
        });
        let path = dir.join(format!("{}.json", self.prop));
        let tmp = dir.join(format!("{}.json.tmp", self.prop));
        let text = serde_json::to_string_pretty(&v).unwrap();
        if std::fs::write(&tmp, text).is_err() || std::fs::rename(&tmp, &path).is_err() {
            machinery_error("cannot write the evidence file");
        }
    }
}

/// Collects violations and known findings for one run and finishes it.
pub struct Verdict {
    pub prop: String,
    /// (dedup key, replay JSON)
    pub violations: BTreeMap<String, Value>,
    /// finding id -> (count, example)
    pub known_seen: BTreeMap<String, (usize, String)>,
    pub known: KnownFindings,
    pub max_reported: usize,
}

impl Verdict {
    pub fn new(prop: &str) -> Verdict {
        Verdict {
            prop: prop.to_uppercase(),
            violations: BTreeMap::new(),
            known_seen: BTreeMap::new(),
            known: KnownFindings::load(),
            max_reported: 10,
        }
    }

    /// Record a discrepancy. `finding` is the id of the known finding whose
    /// counterfactual model explains it, if any; it only suppresses the
    /// violation when that finding is listed (open) for this property.
    pub fn discrepancy(&mut self, finding: Option<&str>, key: &str, replay: Value) {
        if let Some(f) = finding {
            if self.known.is_open(&self.prop, f) {
                let e = self.known_seen.entry(f.to_string()).or_insert((0, key.to_string()));
                e.0 += 1;
                return;
            }
        }
        if self.violations.len() < 1000 {
            self.violations.entry(key.to_string()).or_insert(replay);
        }
    }

    pub fn merge(&mut self, other: Verdict) {
        for (k, v) in other.violations {
            if self.violations.len() < 1000 {
                self.violations.entry(k).or_insert(v);
            }
        }
        for (k, (n, ex)) in other.known_seen {
            let e = self.known_seen.entry(k).or_insert((0, ex));
            e.0 += n;
        }
    }

    /// Write replay files, print KNOWN-FINDING / VIOLATION lines, write the
    /// evidence and exit with the contract's status.
    pub fn finish(self, mut ev: Evidence) -> ! {
        for (f, (n, ex)) in self.known_seen.iter() {
            let what = self.known.describe(&self.prop, f);
            println!(
                "KNOWN-FINDING: property={} {} — {} (seen in {} explored cases, e.g. {})",
                self.prop, f, what, n, ex
            );
        }
        ev.known = self.known_seen.len();
        ev.violations = self.violations.len();
        let mut paths = vec![];
        if !self.violations.is_empty() {
            let dir = Path::new(VERIF).join("replays").join(&self.prop);
            let _ = std::fs::remove_dir_all(&dir);
            let _ = std::fs::create_dir_all(&dir);
            let keys: Vec<&str> = self.violations.keys().map(|k| k.as_str()).collect();
            let _ = std::fs::write(dir.join("summary.txt"), keys.join("\n"));
            for (i, (key, replay)) in self.violations.iter().enumerate() {
                if i >= self.max_reported {
                    break;
                }
                let path = dir.join(format!("v{:03}.json", i));
                let mut r = replay.clone();
                if let Value::Object(ref mut m) = r {
                    m.insert("property".into(), json!(self.prop));
                    m.insert("key".into(), json!(key));
                }
                let _ = std::fs::write(&path, serde_json::to_string_pretty(&r).unwrap());
                paths.push(path);
            }
        }
        ev.set(
            "known_findings_seen",
            Value::Array(self.known_seen.keys().map(|k| json!(k)).collect()),
        );
        ev.write();
        if self.violations.is_empty() {
            let _ = std::fs::remove_dir_all(Path::new(VERIF).join("replays").join(&self.prop));
            println!(
                "OK property={} tier={} wall={:.1}s",
                self.prop,
                ev.tier.name(),
                ev.elapsed()
            );
            std::process::exit(0);
        }
        for p in paths.iter() {
            println!("VIOLATION property={} replay={}", self.prop, p.display());
        }
        if self.violations.len() > paths.len() {
            println!(
                "({} further distinct violations not written)",
                self.violations.len() - paths.len()
            );
        }
        std::process::exit(1)
    }
}

/// `/verif/known_findings.json`: read-only at run time.
#[derive(Clone, Debug, Default)]
pub struct KnownFindings {
    /// (property, id) -> description, for entries with status "open".
    open: BTreeMap<(String, String), String>,
}

impl KnownFindings {
    pub fn load() -> KnownFindings {
        let path = Path::new(VERIF).join("known_findings.json");
        let mut kf = KnownFindings::default();
        let Ok(text) = std::fs::read_to_string(&path) else { return kf };
        let Ok(v) = serde_json::from_str::<Value>(&text) else {
            machinery_error("known_findings.json does not parse");
        };
        if let Some(arr) = v.get("findings").and_then(|f| f.as_array()) {
            for f in arr {
                let status = f.get("status").and_then(|s| s.as_str()).unwrap_or("");
                if status != "open" {
                    continue;
                }
                let id = f.get("id").and_then(|s| s.as_str()).unwrap_or("").to_string();
                let what = f.get("what").and_then(|s| s.as_str()).unwrap_or("").to_string();
                if let Some(props) = f.get("properties").and_then(|p| p.as_array()) {
                    for p in props {
                        if let Some(p) = p.as_str() {
                            kf.open.insert((p.to_string(), id.clone()), what.clone());
                        }
                    }
                }
            }
        }
        kf
    }

    pub fn is_open(&self, prop: &str, id: &str) -> bool {
        self.open.contains_key(&(prop.to_string(), id.to_string()))
    }

    pub fn describe(&self, prop: &str, id: &str) -> String {
        self.open.get(&(prop.to_string(), id.to_string())).cloned().unwrap_or_default()
    }
}

/// A scratch directory on tmpfs, removed on drop.
pub struct Scratch {
    pub path: PathBuf,
}

impl Scratch {
    pub fn new(tag: &str) -> Scratch {
        static N: AtomicUsize = AtomicUsize::new(0);
        let base = if Path::new("/dev/shm").is_dir() { "/dev/shm" } else { "/tmp" };
        let path = PathBuf::from(format!(
            "{}/verif-{}-{}-{}",
            base,
            tag,
            std::process::id(),
            N.fetch_add(1, Ordering::Relaxed)
        ));
        let _ = std::fs::remove_dir_all(&path);
        if std::fs::create_dir_all(&path).is_err() {
            machinery_error("cannot create a scratch directory");
        }
        Scratch { path }
    }
}

impl Drop for Scratch {
    fn drop(&mut self) {
        let _ = std::fs::remove_dir_all(&self.path);
    }
}

/// Build `/repo`'s `rg` (hooks on) into /verif/.target/rg and return its path.
pub fn build_rg() -> PathBuf {
    let target = Path::new(VERIF).join(".target").join("rg");
    let out = std::process::Command::new("cargo")
        .args([
            "build",
            "--release",
            "--offline",
            "--manifest-path",
            "/repo/Cargo.toml",
            "--features",
            "ignore/verif-hooks",
            "--target-dir",
        ])
        .arg(&target)
        .env("CARGO_NET_OFFLINE", "true")
        .output();
    match out {
        Ok(o) if o.status.success() => target.join("release").join("rg"),
        Ok(o) => {
            eprintln!("{}", String::from_utf8_lossy(&o.stderr));
            machinery_error("building rg failed")
        }
        Err(_) => machinery_error("cannot run cargo"),
    }
}

/// Simple deterministic 64-bit mix (for dedup keys and labelled supplements).
pub fn hash64(data: &[u8]) -> u64 {
    let mut h: u64 = 0xcbf29ce484222325;
    for &b in data {
        h ^= b as u64;
        h = h.wrapping_mul(0x100000001b3);
    }
    h
}
