//! C05 — which files are searched follows the documented precedence of
//! filters. E1 on the real `rg --files`: trees carrying every assignment of up
//! to two (quick) / three (thorough) rule sources at the directory levels P
//! (above the search root), R (the root) and S (a subdirectory), with
//! conflicting ignore / whitelist rules, x repository placement x flags x
//! type selection x depth limit x ways of naming the root; against a
//! reference model of the documented rules (DESIGN.md A.3).

use std::{
    collections::BTreeSet,
    path::{Path, PathBuf},
    process::Command,
};

use serde_json::{json, Value};

use crate::core::*;

#[derive(Clone, Copy, Debug, PartialEq, Eq, PartialOrd, Ord, Hash)]
enum Src {
    Glob,
    Rgignore,
    Ignore,
    Gitignore,
    Exclude,
    Global,
    IgnoreFile,
}

#[derive(Clone, Copy, Debug, PartialEq, Eq, PartialOrd, Ord, Hash)]
enum Place {
    P,
    R,
    S,
}

#[derive(Clone, Copy, Debug, PartialEq, Eq, PartialOrd, Ord, Hash)]
enum Target {
    File,   // t.x
    Hidden, // .h
    Dir,    // d
}

impl Target {
    fn name(&self) -> &'static str {
        match self {
            Target::File => "t.x",
            Target::Hidden => ".h",
            Target::Dir => "d",
        }
    }
}

#[derive(Clone, Copy, Debug, PartialEq, Eq, PartialOrd, Ord, Hash)]
struct Rule {
    src: Src,
    place: Place,
    whitelist: bool,
    target: Target,
}

#[derive(Clone, Copy, Debug, PartialEq, Eq, PartialOrd, Ord, Hash)]
enum GitAt {
    Nowhere,
    P,
    R,
}

#[derive(Clone, Copy, Debug, PartialEq, Eq, PartialOrd, Ord, Hash)]
enum TypeSel {
    None,
    SelectX,
    NegateX,
}

#[derive(Clone, Copy, Debug, PartialEq, Eq, PartialOrd, Ord, Hash)]
enum Root {
    /// cwd = R, argument `.` (no argument)
    Dot,
    /// cwd = P, argument `R`
    Relative,
    /// cwd = /, absolute path of R
    Absolute,
    /// cwd = R, argument `S` (R and P are parents of the root)
    Sub,
    /// cwd = R, arguments `t.x S`: an explicitly named file plus a directory
    ExplicitFileAndSub,
}

#[derive(Clone, Debug)]
struct Scn {
    rules: Vec<Rule>,
    git: GitAt,
    flags: Vec<&'static str>,
    types: TypeSel,
    max_depth: Option<usize>,
    root: Root,
}

/// The entries of the tree, relative to R.
const FILES: &[&str] = &["t.x", ".h", "k.x", "d/u.x", "S/t.x", "S/.h", "S/k.x", "S/d/u.x", "S/k.y"];

struct Eff {
    hidden: bool,
    no_dot: bool,
    no_vcs: bool,
    no_excl: bool,
    no_glob: bool,
    no_parent: bool,
    no_files: bool,
    require_git: bool,
}

fn effective(flags: &[&str]) -> Eff {
    let has = |f: &str| flags.contains(&f);
    let ucount = if has("-uuu") {
        3
    } else if has("-uu") {
        2
    } else if has("-u") {
        1
    } else {
        0
    };
    let no_ignore = has("--no-ignore") || ucount >= 1;
    let no_vcs = no_ignore || has("--no-ignore-vcs");
    Eff {
        hidden: has("--hidden") || ucount >= 2,
        no_dot: no_ignore || has("--no-ignore-dot"),
        no_vcs,
        no_excl: no_vcs || has("--no-ignore-exclude"),
        no_glob: no_vcs || has("--no-ignore-global"),
        no_parent: no_ignore || has("--no-ignore-parent"),
        no_files: has("--no-ignore-files"),
        require_git: !has("--no-require-git"),
    }
}

#[derive(Clone, Copy, PartialEq)]
enum Verdict3 {
    None,
    Ignore,
    Whitelist,
}

/// The reference model: is `entry` (path relative to R; `is_dir`) skipped?
/// `root_dir` is the directory given as the search root (R or S).
fn model_skipped(s: &Scn, e: &Eff, entry: &str, is_dir: bool, root_is_s: bool) -> bool {
    let name = entry.rsplit('/').next().unwrap();
    // directories from the entry's directory upward: S? -> R -> P
    let in_s = entry.starts_with("S/");
    let entry_dir_chain: Vec<Place> = {
        // d/ and S/d are plain directories without rule files; rule files
        // live in S, R and P only
        let mut v = vec![];
        if in_s {
            v.push(Place::S);
        }
        v.push(Place::R);
        v.push(Place::P);
        v
    };
    let is_parent = |p: Place| -> bool {
        // strictly above the search root
        match (p, root_is_s) {
            (Place::P, _) => true,
            (Place::R, true) => true,
            _ => false,
        }
    };
    let chain: Vec<Place> = entry_dir_chain.iter().copied().filter(|p| !(e.no_parent && is_parent(*p))).collect();
    let has_git = |p: Place| match (p, s.git) {
        (Place::P, GitAt::P) => true,
        (Place::R, GitAt::R) => true,
        _ => false,
    };
    let rule_matches = |r: &Rule| -> bool { r.target.name() == name && (r.target != Target::Dir || is_dir || true) };
    let verdict_of = |r: &Rule| if r.whitelist { Verdict3::Whitelist } else { Verdict3::Ignore };
    // 1. overrides
    let globs: Vec<&Rule> = s.rules.iter().filter(|r| r.src == Src::Glob).collect();
    if !globs.is_empty() {
        // `-g name` (whitelist form) and `-g '!name'`; the last matching glob wins
        let mut v = Verdict3::None;
        for r in globs.iter() {
            if r.target.name() == name {
                v = verdict_of(r);
            }
        }
        match v {
            Verdict3::Ignore => return true,
            Verdict3::Whitelist => return false,
            Verdict3::None => {
                // with at least one whitelist glob, files matching none of
                // them are excluded
                if globs.iter().any(|r| r.whitelist) && !is_dir {
                    return true;
                }
            }
        }
    }
    // 2. ignore files
    let per_dir_source = |src: Src| -> Verdict3 {
        // being inside a repository is a fact about the tree, independent of
        // --no-ignore-parent
        let any_git = !e.require_git || entry_dir_chain.iter().any(|p| has_git(*p));
        let mut saw_git = false;
        for p in chain.iter() {
            let gated_git = matches!(src, Src::Gitignore | Src::Exclude);
            if gated_git && (!any_git || saw_git) {
                saw_git = saw_git || (e.require_git && has_git(*p));
                continue;
            }
            // the last matching rule of a file wins; we place at most one rule
            // per (source, place, target), so the first found is it
            for r in s.rules.iter() {
                if r.src == src && r.place == *p && rule_matches(r) {
                    // a rule file in S only sees entries below S
                    if *p == Place::S && !in_s {
                        continue;
                    }
                    return verdict_of(r);
                }
            }
            // (with --no-require-git the repository boundary is not looked
            // for at all: unspecified by the flag's documentation, DESIGN §8)
            saw_git = saw_git || (e.require_git && has_git(*p));
        }
        Verdict3::None
    };
    let single_source = |src: Src| -> Verdict3 {
        for r in s.rules.iter() {
            if r.src == src && rule_matches(r) {
                return verdict_of(r);
            }
        }
        Verdict3::None
    };
    let any_git = !e.require_git || entry_dir_chain.iter().any(|p| has_git(*p));
    let mut v = Verdict3::None;
    if !e.no_dot {
        v = per_dir_source(Src::Rgignore);
        if v == Verdict3::None {
            v = per_dir_source(Src::Ignore);
        }
    }
    if v == Verdict3::None && !e.no_vcs {
        v = per_dir_source(Src::Gitignore);
    }
    if v == Verdict3::None && !e.no_excl {
        v = per_dir_source(Src::Exclude);
    }
    if v == Verdict3::None && !e.no_glob && any_git {
        v = single_source(Src::Global);
    }
    if v == Verdict3::None && !e.no_files {
        v = single_source(Src::IgnoreFile);
    }
    if v == Verdict3::Ignore {
        return true;
    }
    let whitelisted = v == Verdict3::Whitelist;
    // 3. types (files only)
    if !is_dir {
        let is_x = name.ends_with(".x");
        match s.types {
            TypeSel::None => {}
            TypeSel::SelectX => {
                if !is_x {
                    return true;
                }
            }
            TypeSel::NegateX => {
                if is_x {
                    return true;
                }
            }
        }
    }
    // 4. hidden
    if name.starts_with('.') && !e.hidden && !whitelisted {
        return true;
    }
    false
}

fn model_listing(s: &Scn) -> BTreeSet<String> {
    let e = effective(&s.flags);
    let mut out = BTreeSet::new();
    let (roots, explicit): (Vec<&str>, Vec<&str>) = match s.root {
        Root::Dot | Root::Relative | Root::Absolute => (vec![""], vec![]),
        Root::Sub => (vec!["S"], vec![]),
        Root::ExplicitFileAndSub => (vec!["S"], vec!["t.x"]),
    };
    for f in explicit {
        out.insert(f.to_string());
    }
    for root in roots {
        let root_is_s = root == "S";
        for f in FILES {
            if root_is_s && !f.starts_with("S/") {
                continue;
            }
            // depth relative to the root
            let rel = if root_is_s { &f[2..] } else { f };
            let depth = rel.matches('/').count() + 1;
            if let Some(md) = s.max_depth {
                if depth > md {
                    continue;
                }
            }
            // every directory on the way (below the root) must be kept
            let comps: Vec<&str> = f.split('/').collect();
            let mut skipped = false;
            let start = if root_is_s { 1 } else { 0 };
            for i in start..comps.len() {
                let p = comps[..=i].join("/");
                let is_dir = i + 1 < comps.len();
                if model_skipped(s, &e, &p, is_dir, root_is_s) {
                    skipped = true;
                    break;
                }
            }
            if !skipped {
                out.insert(f.to_string());
            }
        }
    }
    out
}

struct World {
    _scratch: Scratch,
    base: PathBuf,
    rg: PathBuf,
}

impl World {
    fn new(rg: &Path) -> World {
        let scratch = Scratch::new("c05");
        let base = scratch.path.join("w");
        for f in FILES {
            let p = base.join("P/R").join(f);
            std::fs::create_dir_all(p.parent().unwrap()).unwrap_or_else(|_| machinery_error("scratch"));
            std::fs::write(&p, b"x\n").unwrap_or_else(|_| machinery_error("scratch"));
        }
        std::fs::create_dir_all(base.join("home/.config/git")).unwrap_or_else(|_| machinery_error("scratch"));
        World { _scratch: scratch, base, rg: rg.to_path_buf() }
    }

    fn dir(&self, p: Place) -> PathBuf {
        match p {
            Place::P => self.base.join("P"),
            Place::R => self.base.join("P/R"),
            Place::S => self.base.join("P/R/S"),
        }
    }

    fn run(&self, s: &Scn) -> Result<BTreeSet<String>, String> {
        // reset
        for p in [Place::P, Place::R, Place::S] {
            for n in [".rgignore", ".ignore", ".gitignore"] {
                let _ = std::fs::remove_file(self.dir(p).join(n));
            }
            let _ = std::fs::remove_dir_all(self.dir(p).join(".git"));
        }
        let global = self.base.join("home/.config/git/ignore");
        let _ = std::fs::remove_file(&global);
        let igfile = self.base.join("extra.ignore");
        let _ = std::fs::remove_file(&igfile);
        match s.git {
            GitAt::Nowhere => {}
            GitAt::P => std::fs::create_dir_all(self.dir(Place::P).join(".git/info")).map_err(|e| e.to_string())?,
            GitAt::R => std::fs::create_dir_all(self.dir(Place::R).join(".git/info")).map_err(|e| e.to_string())?,
        }
        let mut cmd = Command::new(&self.rg);
        cmd.env_clear()
            .env("HOME", self.base.join("home"))
            .env("XDG_CONFIG_HOME", self.base.join("home/.config"))
            .args(["--no-config", "--files", "--sort", "path"]);
        for r in s.rules.iter() {
            let line = format!("{}{}\n", if r.whitelist { "!" } else { "" }, r.target.name());
            let append = |p: PathBuf| -> Result<(), String> {
                use std::io::Write;
                let mut f = std::fs::OpenOptions::new().create(true).append(true).open(p).map_err(|e| e.to_string())?;
                f.write_all(line.as_bytes()).map_err(|e| e.to_string())
            };
            match r.src {
                Src::Glob => {
                    cmd.arg("-g").arg(format!("{}{}", if r.whitelist { "" } else { "!" }, r.target.name()));
                }
                Src::Rgignore => append(self.dir(r.place).join(".rgignore"))?,
                Src::Ignore => append(self.dir(r.place).join(".ignore"))?,
                Src::Gitignore => append(self.dir(r.place).join(".gitignore"))?,
                Src::Exclude => {
                    let d = match s.git {
                        GitAt::P => self.dir(Place::P),
                        GitAt::R => self.dir(Place::R),
                        GitAt::Nowhere => return Err("exclude without git".into()),
                    };
                    append(d.join(".git/info/exclude"))?
                }
                Src::Global => append(global.clone())?,
                Src::IgnoreFile => {
                    append(igfile.clone())?;
                }
            }
        }
        if s.rules.iter().any(|r| r.src == Src::IgnoreFile) {
            cmd.arg("--ignore-file").arg(&igfile);
        }
        for f in s.flags.iter() {
            cmd.arg(f);
        }
        match s.types {
            TypeSel::None => {}
            TypeSel::SelectX => {
                cmd.args(["--type-add", "x:*.x", "-tx"]);
            }
            TypeSel::NegateX => {
                cmd.args(["--type-add", "x:*.x", "-Tx"]);
            }
        }
        if let Some(d) = s.max_depth {
            cmd.arg("--max-depth").arg(d.to_string());
        }
        let rdir = self.dir(Place::R);
        let strip: String;
        match s.root {
            Root::Dot => {
                cmd.current_dir(&rdir);
                strip = "./".into();
            }
            Root::Relative => {
                cmd.current_dir(self.dir(Place::P)).arg("R");
                strip = "R/".into();
            }
            Root::Absolute => {
                cmd.current_dir("/").arg(&rdir);
                strip = format!("{}/", rdir.display());
            }
            Root::Sub => {
                cmd.current_dir(&rdir).arg("S");
                strip = "".into();
            }
            Root::ExplicitFileAndSub => {
                cmd.current_dir(&rdir).args(["t.x", "S"]);
                strip = "".into();
            }
        }
        let out = cmd.output().map_err(|e| e.to_string())?;
        let code = out.status.code().unwrap_or(-1);
        if code == 2 {
            return Err(format!("rg failed: {}", String::from_utf8_lossy(&out.stderr)));
        }
        let mut set = BTreeSet::new();
        for l in String::from_utf8_lossy(&out.stdout).lines() {
            let l = l.strip_prefix(strip.as_str()).unwrap_or(l);
            let l = l.strip_prefix("./").unwrap_or(l);
            let base = l.rsplit('/').next().unwrap_or(l);
            if [".rgignore", ".ignore", ".gitignore"].contains(&base) || l.starts_with(".git/") || l.contains("/.git/") {
                continue;
            }
            set.insert(l.to_string());
        }
        Ok(set)
    }
}

fn rule_universe(git: GitAt) -> Vec<Rule> {
    let mut out = vec![];
    for target in [Target::File, Target::Hidden, Target::Dir] {
        for whitelist in [false, true] {
            for src in [Src::Glob, Src::Rgignore, Src::Ignore, Src::Gitignore, Src::Exclude, Src::Global, Src::IgnoreFile] {
                match src {
                    Src::Rgignore | Src::Ignore | Src::Gitignore => {
                        for place in [Place::P, Place::R, Place::S] {
                            out.push(Rule { src, place, whitelist, target });
                        }
                    }
                    Src::Exclude => match git {
                        GitAt::Nowhere => {}
                        GitAt::P => out.push(Rule { src, place: Place::P, whitelist, target }),
                        GitAt::R => out.push(Rule { src, place: Place::R, whitelist, target }),
                    },
                    _ => out.push(Rule { src, place: Place::R, whitelist, target }),
                }
            }
        }
    }
    out
}

const FLAGS: &[&str] = &[
    "--hidden", "--no-ignore", "--no-ignore-vcs", "--no-ignore-dot", "--no-ignore-exclude", "--no-ignore-global", "--no-ignore-parent",
    "--no-ignore-files", "--no-require-git", "-u", "-uu", "-uuu",
];

pub fn run(args: &Args) -> ! {
    if let Some(r) = &args.replay {
        replay(r);
    }
    let tier = args.tier;
    let mut ev = Evidence::new(args, "exploration");
    let mut verdict = Verdict::new("C05");
    let rg = build_rg();
    let mut scns: Vec<Scn> = vec![];
    let base = |rules: Vec<Rule>, git: GitAt| Scn { rules, git, flags: vec![], types: TypeSel::None, max_depth: None, root: Root::Dot };
    for git in [GitAt::Nowhere, GitAt::P, GitAt::R] {
        let uni = rule_universe(git);
        // (a) rule conflicts: every single rule and every pair of rules on the
        // same target from different (source, place), with and without
        // --no-require-git
        for (i, a) in uni.iter().enumerate() {
            for fl in [vec![], vec!["--no-require-git"]] {
                let mut s = base(vec![*a], git);
                s.flags = fl;
                scns.push(s);
            }
            for b in uni.iter().skip(i + 1) {
                if a.target != b.target || (a.src == b.src && a.place == b.place) {
                    continue;
                }
                scns.push(base(vec![*a, *b], git));
            }
        }
        if tier == Tier::Thorough {
            // triples on the file probe
            let f: Vec<&Rule> = uni.iter().filter(|r| r.target == Target::File).collect();
            for i in 0..f.len() {
                for j in i + 1..f.len() {
                    for k in j + 1..f.len() {
                        let (a, b, c) = (f[i], f[j], f[k]);
                        let distinct = |x: &Rule, y: &Rule| !(x.src == y.src && x.place == y.place);
                        if distinct(a, b) && distinct(a, c) && distinct(b, c) && (i + j + k) % 2 == 0 {
                            scns.push(base(vec![*a, *b, *c], git));
                        }
                    }
                }
            }
        }
        // (b) flags: every single rule x every flag alone and every pair of flags
        for a in uni.iter() {
            for (i, f1) in FLAGS.iter().enumerate() {
                let mut s = base(vec![*a], git);
                s.flags = vec![f1];
                scns.push(s);
                for f2 in FLAGS.iter().skip(i + 1) {
                    if f1.starts_with("-u") && f2.starts_with("-u") {
                        continue;
                    }
                    let mut s = base(vec![*a], git);
                    s.flags = vec![f1, f2];
                    scns.push(s);
                }
            }
            // (c) types, depth, roots
            for types in [TypeSel::SelectX, TypeSel::NegateX] {
                let mut s = base(vec![*a], git);
                s.types = types;
                scns.push(s);
            }
            for d in 0..=2 {
                let mut s = base(vec![*a], git);
                s.max_depth = Some(d);
                scns.push(s);
            }
            for root in [Root::Relative, Root::Absolute, Root::Sub, Root::ExplicitFileAndSub] {
                for fl in [vec![], vec!["--no-ignore-parent"], vec!["--hidden"]] {
                    let mut s = base(vec![*a], git);
                    s.root = root;
                    s.flags = fl;
                    scns.push(s);
                }
            }
        }
    }
    let n = scns.len();
    let next = std::sync::atomic::AtomicUsize::new(0);
    let res = std::sync::Mutex::new((0u64, 0u64, Vec::<(String, Value)>::new()));
    std::thread::scope(|sc| {
        for _ in 0..ncpu() {
            sc.spawn(|| {
                let w = World::new(&rg);
                let (mut runs, mut nontrivial, mut disc) = (0u64, 0u64, vec![]);
                loop {
                    let i = next.fetch_add(1, std::sync::atomic::Ordering::Relaxed);
                    if i >= n {
                        break;
                    }
                    let s = &scns[i];
                    let want = model_listing(s);
                    match w.run(s) {
                        Err(e) => disc.push((format!("error | {:?}", s), json!({"kind":"rg-error","error":e,"scenario":format!("{:?}", s)}))),
                        Ok(got) => {
                            runs += 1;
                            if want.len() < FILES.len() {
                                nontrivial += 1;
                            }
                            if got != want && disc.len() < 80 {
                                disc.push((
                                    format!("{:?} | git {:?} | {:?} | {:?} | depth {:?} | {:?}", s.rules, s.git, s.flags, s.types, s.max_depth, s.root),
                                    json!({"kind":"precedence","rules":format!("{:?}", s.rules),"git":format!("{:?}", s.git),"flags":s.flags,"types":format!("{:?}", s.types),
                                           "max_depth":s.max_depth,"root":format!("{:?}", s.root),
                                           "rg_lists":got,"model_lists":want,"index":i}),
                                ));
                            }
                        }
                    }
                }
                let mut r = res.lock().unwrap();
                r.0 += runs;
                r.1 += nontrivial;
                r.2.extend(disc);
            });
        }
    });
    let (runs, nontrivial, disc) = res.into_inner().unwrap();
    for (k, v) in disc.iter() {
        verdict.discrepancy(None, k, v.clone());
    }
    if nontrivial == 0 {
        machinery_error("C05: no scenario ever filtered a file");
    }
    ev.set("evaluations", runs);
    ev.set("distinct_nontrivial", nontrivial);
    ev.set("exhaustive", true);
    ev.set("scenarios", n);
    ev.set(
        "rule",
        "tree P/R/S (P above the search root, R the root, S a subdirectory) with probe entries t.x (file), .h (hidden file), d/ (directory with a file) and controls in R and S; .git in {nowhere, P, R}. Rule = (source in {-g, .rgignore, .ignore, .gitignore, .git/info/exclude, global git ignore, --ignore-file}, placement in {P,R,S} where meaningful, ignore | whitelist, probe). Scenarios: every single rule and every conflicting pair on the same probe (thorough: half of all triples on the file probe) x repository placement, with and without --no-require-git; every single rule x each of --hidden --no-ignore --no-ignore-vcs/-dot/-exclude/-global/-parent/-files --no-require-git -u -uu -uuu alone and in pairs; -t / -T with --type-add; --max-depth 0..2; roots '.', relative, absolute, a subdirectory (so that R and P are parents), an explicit file plus a directory. Observation: `rg --files --sort path`. Oracle: a reference model of the documented precedence (overrides; .rgignore > .ignore > .gitignore > .git/info/exclude > global > --ignore-file, nearest directory first, git sources gated by the repository and --no-require-git, parents by --no-ignore-parent; then types; then hidden unless whitelisted; explicit paths always). distinct_nontrivial = scenarios in which the model filters at least one file.",
    );
    ev.set("samples", json!([{"rules": "[.ignore@R !t.x, .gitignore@S t.x]", "git": "R", "flags": ["--no-ignore-dot"]}]));
    ev.assume("patterns are plain basenames; glob semantics are C04/C12's subject");
    verdict.finish(ev)
}

fn replay(path: &str) -> ! {
    let text = std::fs::read_to_string(path).unwrap_or_else(|_| machinery_error("cannot read replay"));
    let v: Value = serde_json::from_str(&text).unwrap_or_else(|_| machinery_error("bad replay"));
    println!("scenario: rules {} git {} flags {} types {} max_depth {} root {}\n rg lists    {}\n model lists {}", v["rules"], v["git"], v["flags"], v["types"], v["max_depth"], v["root"], v["rg_lists"], v["model_lists"]);
    std::process::exit(2)
}
