//! C05 — which files are searched follows the documented precedence of
//! filters. E1 on the real `rg --files`: trees carrying every assignment of up
//! to two (quick) / three (thorough) rule sources at the directory levels P
//! (above the search root), R (the root) and S (a subdirectory), with
//! conflicting ignore / whitelist rules, x repository placement x flags x
//! type selection x depth limit x ways of naming the root; against a
//! reference model of the documented rules (DESIGN.md A.3).

use std::{
    collections::BTreeSet,
    path::{Path, PathBuf},
    process::Command,
};

use serde_json::{json, Value};

use crate::{core::*, sched};

#[derive(Clone, Copy, Debug, PartialEq, Eq, PartialOrd, Ord, Hash)]
enum Src {
    Glob,
    Rgignore,
    Ignore,
    Gitignore,
    Exclude,
    Global,
    IgnoreFile,
}

#[derive(Clone, Copy, Debug, PartialEq, Eq, PartialOrd, Ord, Hash)]
enum Place {
    P,
    R,
    S,
}

#[derive(Clone, Copy, Debug, PartialEq, Eq, PartialOrd, Ord, Hash)]
enum Target {
    File,   // t.x
    Hidden, // .h
    Dir,    // d
}

impl Target {
    fn name(&self) -> &'static str {
        match self {
            Target::File => "t.x",
            Target::Hidden => ".h",
            Target::Dir => "d",
        }
    }
}

#[derive(Clone, Copy, Debug, PartialEq, Eq, PartialOrd, Ord, Hash)]
struct Rule {
    src: Src,
    place: Place,
    whitelist: bool,
    target: Target,
}

#[derive(Clone, Copy, Debug, PartialEq, Eq, PartialOrd, Ord, Hash)]
enum GitAt {
    Nowhere,
    P,
    R,
}

#[derive(Clone, Copy, Debug, PartialEq, Eq, PartialOrd, Ord, Hash)]
enum TypeSel {
    None,
    SelectX,
    NegateX,
    /// `-tx -Tq` (q names a type that matches nothing): a selection followed
    /// by a negation — files of neither type stay excluded
    SelectXNegateQ,
    /// `-Tq -tx`
    NegateQSelectX,
    /// `-tx -Ty`
    SelectXNegateY,
}

#[derive(Clone, Copy, Debug, PartialEq, Eq, PartialOrd, Ord, Hash)]
enum Root {
    /// cwd = R, argument `.` (no argument)
    Dot,
    /// cwd = P, argument `R`
    Relative,
    /// cwd = /, absolute path of R
    Absolute,
    /// cwd = R, argument `S` (R and P are parents of the root)
    Sub,
    /// cwd = R, arguments `t.x S`: an explicitly named file plus a directory
    ExplicitFileAndSub,
}

#[derive(Clone, Debug)]
struct Scn {
    rules: Vec<Rule>,
    git: GitAt,
    flags: Vec<&'static str>,
    types: TypeSel,
    max_depth: Option<usize>,
    root: Root,
}

/// The entries of the tree, relative to R.
const FILES: &[&str] = &["t.x", ".h", "k.x", "d/u.x", "S/t.x", "S/.h", "S/k.x", "S/d/u.x", "S/k.y"];

struct Eff {
    hidden: bool,
    no_dot: bool,
    no_vcs: bool,
    no_excl: bool,
    no_glob: bool,
    no_parent: bool,
    no_files: bool,
    require_git: bool,
}

fn effective(flags: &[&str]) -> Eff {
    let has = |f: &str| flags.contains(&f);
    let ucount = if has("-uuu") {
        3
    } else if has("-uu") {
        2
    } else if has("-u") {
        1
    } else {
        0
    };
    let no_ignore = has("--no-ignore") || ucount >= 1;
    let no_vcs = no_ignore || has("--no-ignore-vcs");
    Eff {
        hidden: has("--hidden") || ucount >= 2,
        no_dot: no_ignore || has("--no-ignore-dot"),
        no_vcs,
        no_excl: no_vcs || has("--no-ignore-exclude"),
        no_glob: no_vcs || has("--no-ignore-global"),
        no_parent: no_ignore || has("--no-ignore-parent"),
        no_files: has("--no-ignore-files"),
        require_git: !has("--no-require-git"),
    }
}

#[derive(Clone, Copy, PartialEq)]
enum Verdict3 {
    None,
    Ignore,
    Whitelist,
}

/// The reference model: is `entry` (path relative to R; `is_dir`) skipped?
/// `root_dir` is the directory given as the search root (R or S).
fn model_skipped(s: &Scn, e: &Eff, entry: &str, is_dir: bool, root_is_s: bool) -> bool {
    let name = entry.rsplit('/').next().unwrap();
    // directories from the entry's directory upward: S? -> R -> P
    let in_s = entry.starts_with("S/");
    let entry_dir_chain: Vec<Place> = {
        // d/ and S/d are plain directories without rule files; rule files
        // live in S, R and P only
        let mut v = vec![];
        if in_s {
            v.push(Place::S);
        }
        v.push(Place::R);
        v.push(Place::P);
        v
    };
    let is_parent = |p: Place| -> bool {
        // strictly above the search root
        match (p, root_is_s) {
            (Place::P, _) => true,
            (Place::R, true) => true,
            _ => false,
        }
    };
    let chain: Vec<Place> = entry_dir_chain.iter().copied().filter(|p| !(e.no_parent && is_parent(*p))).collect();
    let has_git = |p: Place| match (p, s.git) {
        (Place::P, GitAt::P) => true,
        (Place::R, GitAt::R) => true,
        _ => false,
    };
    let rule_matches = |r: &Rule| -> bool { r.target.name() == name && (r.target != Target::Dir || is_dir || true) };
    let verdict_of = |r: &Rule| if r.whitelist { Verdict3::Whitelist } else { Verdict3::Ignore };
    // 1. overrides
    let globs: Vec<&Rule> = s.rules.iter().filter(|r| r.src == Src::Glob).collect();
    if !globs.is_empty() {
        // `-g name` (whitelist form) and `-g '!name'`; the last matching glob wins
        let mut v = Verdict3::None;
        for r in globs.iter() {
            if r.target.name() == name {
                v = verdict_of(r);
            }
        }
        match v {
            Verdict3::Ignore => return true,
            Verdict3::Whitelist => return false,
            Verdict3::None => {
                // with at least one whitelist glob, files matching none of
                // them are excluded
                if globs.iter().any(|r| r.whitelist) && !is_dir {
                    return true;
                }
            }
        }
    }
    // 2. ignore files
    let per_dir_source = |src: Src| -> Verdict3 {
        // being inside a repository is a fact about the tree, independent of
        // --no-ignore-parent
        let any_git = !e.require_git || entry_dir_chain.iter().any(|p| has_git(*p));
        let mut saw_git = false;
        for p in chain.iter() {
            let gated_git = matches!(src, Src::Gitignore | Src::Exclude);
            if gated_git && (!any_git || saw_git) {
                saw_git = saw_git || (e.require_git && has_git(*p));
                continue;
            }
            // the last matching rule of a file wins; we place at most one rule
            // per (source, place, target), so the first found is it
            for r in s.rules.iter() {
                if r.src == src && r.place == *p && rule_matches(r) {
                    // a rule file in S only sees entries below S
                    if *p == Place::S && !in_s {
                        continue;
                    }
                    return verdict_of(r);
                }
            }
            // (with --no-require-git the repository boundary is not looked
            // for at all: unspecified by the flag's documentation, DESIGN §8)
            saw_git = saw_git || (e.require_git && has_git(*p));
        }
        Verdict3::None
    };
    let single_source = |src: Src| -> Verdict3 {
        for r in s.rules.iter() {
            if r.src == src && rule_matches(r) {
                return verdict_of(r);
            }
        }
        Verdict3::None
    };
    let any_git = !e.require_git || entry_dir_chain.iter().any(|p| has_git(*p));
    let mut v = Verdict3::None;
    if !e.no_dot {
        v = per_dir_source(Src::Rgignore);
        if v == Verdict3::None {
            v = per_dir_source(Src::Ignore);
        }
    }
    if v == Verdict3::None && !e.no_vcs {
        v = per_dir_source(Src::Gitignore);
    }
    if v == Verdict3::None && !e.no_excl {
        v = per_dir_source(Src::Exclude);
    }
    if v == Verdict3::None && !e.no_glob && any_git {
        v = single_source(Src::Global);
    }
    if v == Verdict3::None && !e.no_files {
        v = single_source(Src::IgnoreFile);
    }
    if v == Verdict3::Ignore {
        return true;
    }
    let whitelisted = v == Verdict3::Whitelist;
    // 3. types (files only)
    if !is_dir {
        let is_x = name.ends_with(".x");
        match s.types {
            TypeSel::None => {}
            TypeSel::SelectX => {
                if !is_x {
                    return true;
                }
            }
            TypeSel::NegateX => {
                if is_x {
                    return true;
                }
            }
            // at least one type is selected: only its files are searched,
            // whatever is negated besides and in whatever order
            TypeSel::SelectXNegateQ | TypeSel::NegateQSelectX | TypeSel::SelectXNegateY => {
                if !is_x {
                    return true;
                }
            }
        }
    }
    // 4. hidden
    if name.starts_with('.') && !e.hidden && !whitelisted {
        return true;
    }
    false
}

fn model_listing(s: &Scn) -> BTreeSet<String> {
    let e = effective(&s.flags);
    let mut out = BTreeSet::new();
    let (roots, explicit): (Vec<&str>, Vec<&str>) = match s.root {
        Root::Dot | Root::Relative | Root::Absolute => (vec![""], vec![]),
        Root::Sub => (vec!["S"], vec![]),
        Root::ExplicitFileAndSub => (vec!["S"], vec!["t.x"]),
    };
    for f in explicit {
        out.insert(f.to_string());
    }
    for root in roots {
        let root_is_s = root == "S";
        for f in FILES {
            if root_is_s && !f.starts_with("S/") {
                continue;
            }
            // depth relative to the root
            let rel = if root_is_s { &f[2..] } else { f };
            let depth = rel.matches('/').count() + 1;
            if let Some(md) = s.max_depth {
                if depth > md {
                    continue;
                }
            }
            // every directory on the way (below the root) must be kept
            let comps: Vec<&str> = f.split('/').collect();
            let mut skipped = false;
            let start = if root_is_s { 1 } else { 0 };
            for i in start..comps.len() {
                let p = comps[..=i].join("/");
                let is_dir = i + 1 < comps.len();
                if model_skipped(s, &e, &p, is_dir, root_is_s) {
                    skipped = true;
                    break;
                }
            }
            if !skipped {
                out.insert(f.to_string());
            }
        }
    }
    out
}

struct World {
    _scratch: Scratch,
    base: PathBuf,
    rg: PathBuf,
}

impl World {
    fn new(rg: &Path) -> World {
        let scratch = Scratch::new("c05");
        let base = scratch.path.join("w");
        for f in FILES {
            let p = base.join("P/R").join(f);
            std::fs::create_dir_all(p.parent().unwrap()).unwrap_or_else(|_| machinery_error("scratch"));
            std::fs::write(&p, b"x\n").unwrap_or_else(|_| machinery_error("scratch"));
        }
        std::fs::create_dir_all(base.join("home/.config/git")).unwrap_or_else(|_| machinery_error("scratch"));
        World { _scratch: scratch, base, rg: rg.to_path_buf() }
    }

    fn dir(&self, p: Place) -> PathBuf {
        match p {
            Place::P => self.base.join("P"),
            Place::R => self.base.join("P/R"),
            Place::S => self.base.join("P/R/S"),
        }
    }

    fn run(&self, s: &Scn) -> Result<BTreeSet<String>, String> {
        // reset
        for p in [Place::P, Place::R, Place::S] {
            for n in [".rgignore", ".ignore", ".gitignore"] {
                let _ = std::fs::remove_file(self.dir(p).join(n));
            }
            let _ = std::fs::remove_dir_all(self.dir(p).join(".git"));
        }
        let global = self.base.join("home/.config/git/ignore");
        let _ = std::fs::remove_file(&global);
        let igfile = self.base.join("extra.ignore");
        let _ = std::fs::remove_file(&igfile);
        match s.git {
            GitAt::Nowhere => {}
            GitAt::P => std::fs::create_dir_all(self.dir(Place::P).join(".git/info")).map_err(|e| e.to_string())?,
            GitAt::R => std::fs::create_dir_all(self.dir(Place::R).join(".git/info")).map_err(|e| e.to_string())?,
        }
        let mut cmd = Command::new(&self.rg);
        cmd.env_clear()
            .env("HOME", self.base.join("home"))
            .env("XDG_CONFIG_HOME", self.base.join("home/.config"))
            .args(["--no-config", "--files", "--sort", "path"]);
        for r in s.rules.iter() {
            let line = format!("{}{}\n", if r.whitelist { "!" } else { "" }, r.target.name());
            let append = |p: PathBuf| -> Result<(), String> {
                use std::io::Write;
                let mut f = std::fs::OpenOptions::new().create(true).append(true).open(p).map_err(|e| e.to_string())?;
                f.write_all(line.as_bytes()).map_err(|e| e.to_string())
            };
            match r.src {
                Src::Glob => {
                    cmd.arg("-g").arg(format!("{}{}", if r.whitelist { "" } else { "!" }, r.target.name()));
                }
                Src::Rgignore => append(self.dir(r.place).join(".rgignore"))?,
                Src::Ignore => append(self.dir(r.place).join(".ignore"))?,
                Src::Gitignore => append(self.dir(r.place).join(".gitignore"))?,
                Src::Exclude => {
                    let d = match s.git {
                        GitAt::P => self.dir(Place::P),
                        GitAt::R => self.dir(Place::R),
                        GitAt::Nowhere => return Err("exclude without git".into()),
                    };
                    append(d.join(".git/info/exclude"))?
                }
                Src::Global => append(global.clone())?,
                Src::IgnoreFile => {
                    append(igfile.clone())?;
                }
            }
        }
        if s.rules.iter().any(|r| r.src == Src::IgnoreFile) {
            cmd.arg("--ignore-file").arg(&igfile);
        }
        for f in s.flags.iter() {
            cmd.arg(f);
        }
        match s.types {
            TypeSel::None => {}
            TypeSel::SelectX => {
                cmd.args(["--type-add", "x:*.x", "-tx"]);
            }
            TypeSel::NegateX => {
                cmd.args(["--type-add", "x:*.x", "-Tx"]);
            }
            TypeSel::SelectXNegateQ => {
                cmd.args(["--type-add", "x:*.x", "--type-add", "q:*.q", "-tx", "-Tq"]);
            }
            TypeSel::NegateQSelectX => {
                cmd.args(["--type-add", "x:*.x", "--type-add", "q:*.q", "-Tq", "-tx"]);
            }
            TypeSel::SelectXNegateY => {
                cmd.args(["--type-add", "x:*.x", "--type-add", "y:*.y", "-tx", "-Ty"]);
            }
        }
        if let Some(d) = s.max_depth {
            cmd.arg("--max-depth").arg(d.to_string());
        }
        let rdir = self.dir(Place::R);
        let strip: String;
        match s.root {
            Root::Dot => {
                cmd.current_dir(&rdir);
                strip = "./".into();
            }
            Root::Relative => {
                cmd.current_dir(self.dir(Place::P)).arg("R");
                strip = "R/".into();
            }
            Root::Absolute => {
                cmd.current_dir("/").arg(&rdir);
                strip = format!("{}/", rdir.display());
            }
            Root::Sub => {
                cmd.current_dir(&rdir).arg("S");
                strip = "".into();
            }
            Root::ExplicitFileAndSub => {
                cmd.current_dir(&rdir).args(["t.x", "S"]);
                strip = "".into();
            }
        }
        let out = cmd.output().map_err(|e| e.to_string())?;
        let code = out.status.code().unwrap_or(-1);
        if code == 2 {
            return Err(format!("rg failed: {}", String::from_utf8_lossy(&out.stderr)));
        }
        let mut set = BTreeSet::new();
        for l in String::from_utf8_lossy(&out.stdout).lines() {
            let l = l.strip_prefix(strip.as_str()).unwrap_or(l);
            let l = l.strip_prefix("./").unwrap_or(l);
            let base = l.rsplit('/').next().unwrap_or(l);
            if [".rgignore", ".ignore", ".gitignore"].contains(&base) || l.starts_with(".git/") || l.contains("/.git/") {
                continue;
            }
            set.insert(l.to_string());
        }
        Ok(set)
    }
}

fn rule_universe(git: GitAt) -> Vec<Rule> {
    let mut out = vec![];
    for target in [Target::File, Target::Hidden, Target::Dir] {
        for whitelist in [false, true] {
            for src in [Src::Glob, Src::Rgignore, Src::Ignore, Src::Gitignore, Src::Exclude, Src::Global, Src::IgnoreFile] {
                match src {
                    Src::Rgignore | Src::Ignore | Src::Gitignore => {
                        for place in [Place::P, Place::R, Place::S] {
                            out.push(Rule { src, place, whitelist, target });
                        }
                    }
                    Src::Exclude => match git {
                        GitAt::Nowhere => {}
                        GitAt::P => out.push(Rule { src, place: Place::P, whitelist, target }),
                        GitAt::R => out.push(Rule { src, place: Place::R, whitelist, target }),
                    },
                    _ => out.push(Rule { src, place: Place::R, whitelist, target }),
                }
            }
        }
    }
    out
}

const FLAGS: &[&str] = &[
    "--hidden", "--no-ignore", "--no-ignore-vcs", "--no-ignore-dot", "--no-ignore-exclude", "--no-ignore-global", "--no-ignore-parent",
    "--no-ignore-files", "--no-require-git", "-u", "-uu", "-uuu",
];

// ---------------------------------------------------------------------------
// Layer 2: rules that contain a slash. A rule in a PARENT directory's ignore
// file is anchored to that directory whatever the search roots are and
// however deep the entry lies; a -g glob with a slash is anchored to the
// current directory however the root is spelled. With several roots the
// answer must not depend on their order or on the thread schedule.

const AFILES: &[&str] = &["R/t.x", "R/k.x", "R/S/t.x", "R/S/k.x", "R/S/U/t.x", "Q/t.x", "Q/S/t.x", "R/.h.x", "R/S/.h.x", "Q/.h.x", "R/.f.", "R/.d/t.x"];

/// The verdict of the rule lines on ONE path (P-relative; gitignore semantics
/// for literal patterns; the last matching line wins).
fn rule_verdict(lines: &[&str], q: &str, is_dir: bool) -> Option<bool> {
    let mut verdict = None;
    for l in lines {
        let (neg, body) = match l.strip_prefix('!') {
            Some(b) => (true, b),
            None => (false, *l),
        };
        let dir_only = body.ends_with('/');
        let core = body.trim_end_matches('/');
        let anchored = core.contains('/');
        let pat = core.trim_start_matches('/');
        let hit = (!dir_only || is_dir) && if anchored { q == pat } else { q.rsplit('/').next() == Some(pat) };
        if hit {
            verdict = Some(!neg);
        }
    }
    verdict
}

/// Is the file `f` (P-relative) below the root `root` (P-relative, "" = P)
/// skipped? The walker tests every entry strictly below the root on its way
/// down; the root itself is named explicitly and always searched.
fn anchored_ignored(lines: &[&str], f: &str, root: &str) -> bool {
    let comps: Vec<&str> = f.split('/').collect();
    let skip = root.split('/').filter(|c| !c.is_empty()).count();
    for n in skip + 1..=comps.len() {
        let q = comps[..n].join("/");
        if rule_verdict(lines, &q, n < comps.len()) == Some(true) {
            return true;
        }
    }
    false
}

struct AnchoredResult {
    runs: u64,
    schedules: u64,
    nontrivial: u64,
    disc: Vec<(String, Value)>,
}

fn anchored_layer(rg: &Path, tier: Tier) -> AnchoredResult {
    let rule_sets: Vec<Vec<&str>> = vec![
        vec!["/R/t.x"], vec!["/R/S/t.x"], vec!["/R/S/U/t.x"], vec!["R/S/t.x"], vec!["R/S/U/t.x"], vec!["/R/S/"], vec!["/R/S"], vec!["/R/S/U/"],
        vec!["/Q/t.x"], vec!["/Q/S/t.x"], vec!["/Q/"], vec!["/t.x"], vec!["S/t.x"], vec!["/R/k.x"], vec!["/S/t.x"],
        vec!["t.x", "!/R/S/t.x"], vec!["t.x", "!/Q/S/t.x"], vec!["t.x", "!/R/t.x", "/R/S/U/t.x"], vec!["/R/S/t.x", "/Q/t.x"],
        // a directory-only rule that names a FILE has no say about it: the
        // earlier rule of the same source stands
        vec!["t.x", "t.x/"], vec!["/R/S/t.x", "!t.x/"], vec!["t.x", "!t.x/", "/R/k.x/"],
        // hidden names (these rule sets are also run with --hidden)
        vec![".h.x"], vec!["/R/S/.h.x"], vec!["/R/.d/t.x", ".f."],
    ];
    let n_hidden_sets = 3;
    // (cwd below P, path arguments, prefix that turns a printed path into a P-relative one)
    let root_sets: Vec<(&str, Vec<&str>)> = vec![
        ("", vec!["R"]), ("", vec!["./R"]), ("", vec!["R/"]), ("", vec!["R", "Q"]), ("", vec!["Q", "R"]), ("", vec!["ABS:R"]), ("", vec!["R/S"]),
        ("", vec!["R/S", "Q"]), ("", vec!["Q", "R/S"]), ("", vec![]), ("R", vec![]), ("R", vec!["S"]), ("R/S", vec![]), ("", vec!["ABS:R", "Q"]), ("R", vec![".", "../Q"]),
    ];
    // (the third source is a file given with --ignore-file, whose rules are
    // relative to the current directory: used where that is P)
    // (the fourth is the global git ignore file, $HOME/.config/git/ignore,
    // with P a repository: ripgrep documents no anchor for its rules; like
    // those of --ignore-file they are taken relative to the current directory,
    // and the demand here is that the spelling of the root does not matter.
    // The fifth is P/.git/info/exclude, anchored at P like P/.gitignore.)
    let sources = ["ignore", "gitignore", "ignore-file", "global", "exclude"];
    // work items
    // (rule set, roots, source, --hidden)
    // (rule set, roots, source, --hidden, rules written in the opposite case
    // and --ignore-file-case-insensitive given)
    let mut work: Vec<(usize, usize, usize, bool, bool)> = vec![];
    for ri in 0..rule_sets.len() {
        for ro in 0..root_sets.len() {
            for si in 0..sources.len() {
                if si == 1 && (ri + ro) % tier.pick(3, 1) != 0 {
                    continue;
                }
                if (si == 2 || si == 3) && (!root_sets[ro].0.is_empty() || (ri + ro + si) % tier.pick(2, 1) != 0) {
                    continue;
                }
                if si == 4 && (ri + ro) % tier.pick(3, 1) != 1 % tier.pick(3, 1) {
                    continue;
                }
                work.push((ri, ro, si, false, false));
                if ri + n_hidden_sets >= rule_sets.len() {
                    work.push((ri, ro, si, true, false));
                }
                if (ri + 2 * ro + si) % tier.pick(4, 2) == 0 {
                    work.push((ri, ro, si, ri + n_hidden_sets >= rule_sets.len(), true));
                }
            }
        }
    }
    // -g globs with a slash: (cwd, globs, roots)
    let glob_sets: Vec<Vec<&str>> = vec![vec!["!R/S/t.x"], vec!["!/R/S/t.x"], vec!["R/S/*.x"], vec!["!R/S/"], vec!["/R/t.x"], vec!["!Q/*.x", "!R/S/U/t.x"]];
    let next = std::sync::atomic::AtomicUsize::new(0);
    let res = std::sync::Mutex::new(AnchoredResult { runs: 0, schedules: 0, nontrivial: 0, disc: vec![] });
    let total_items = work.len() + glob_sets.len() * 6;
    std::thread::scope(|sc| {
        for _ in 0..ncpu() {
            sc.spawn(|| {
                let scratch = Scratch::new("c05a");
                let pdir = scratch.path.join("P");
                for f in AFILES {
                    let p = pdir.join(f);
                    std::fs::create_dir_all(p.parent().unwrap()).unwrap_or_else(|_| machinery_error("scratch"));
                    std::fs::write(&p, b"x\n").unwrap_or_else(|_| machinery_error("scratch"));
                }
                std::fs::create_dir_all(scratch.path.join("home")).unwrap();
                let trace_path = scratch.path.join("trace");
                let mut local = AnchoredResult { runs: 0, schedules: 0, nontrivial: 0, disc: vec![] };
                // one rg run; returns the P-relative set of listed files
                let run = |cwd: &str, roots: &[&str], extra: &[String], threads: &str, sched_prefix: Option<&[usize]>| -> Result<(BTreeSet<String>, Option<ignore::verif::Trace>), String> {
                    let mut cmd = Command::new(rg);
                    let cwdp = if cwd.is_empty() { pdir.clone() } else { pdir.join(cwd) };
                    cmd.env_clear().env("HOME", scratch.path.join("home")).current_dir(&cwdp).args(["--no-config", "--files"]);
                    match threads {
                        "sort" => {
                            cmd.args(["--sort", "path"]);
                        }
                        t => {
                            cmd.arg(t);
                        }
                    }
                    for e in extra {
                        cmd.arg(e);
                    }
                    for r in roots {
                        match r.strip_prefix("ABS:") {
                            Some(rel) => cmd.arg(pdir.join(rel)),
                            None => cmd.arg(r),
                        };
                    }
                    if let Some(pre) = sched_prefix {
                        let _ = std::fs::remove_file(&trace_path);
                        let spec = pre.iter().map(|c| c.to_string()).collect::<Vec<_>>().join(",");
                        cmd.env("RG_VERIF_SCHED", format!("{};horizon=20000", spec)).env("RG_VERIF_TRACE", &trace_path);
                    }
                    let out = cmd.output().map_err(|e| e.to_string())?;
                    if out.status.code() == Some(2) {
                        return Err(format!("rg failed: {}", String::from_utf8_lossy(&out.stderr)));
                    }
                    let abs = format!("{}/", pdir.display());
                    let mut set = BTreeSet::new();
                    for l in String::from_utf8_lossy(&out.stdout).lines() {
                        let rel = if let Some(r) = l.strip_prefix(abs.as_str()) {
                            r.to_string()
                        } else {
                            // relative to cwd: normalise ./ and ../
                            let mut comps: Vec<&str> = cwd.split('/').filter(|c| !c.is_empty()).collect();
                            for c in l.split('/') {
                                match c {
                                    "." | "" => {}
                                    ".." => {
                                        comps.pop();
                                    }
                                    c => comps.push(c),
                                }
                            }
                            comps.join("/")
                        };
                        let base = rel.rsplit('/').next().unwrap_or("");
                        if base == ".ignore" || base == ".gitignore" || rel.contains(".git/") {
                            continue;
                        }
                        set.insert(rel);
                    }
                    let trace = sched_prefix.and_then(|_| std::fs::read_to_string(&trace_path).ok()).map(|t| crate::c08::parse_trace(&t));
                    Ok((set, trace))
                };
                // which files lie under the roots (with the root they lie under;
                // the longest one if roots nest)
                let under = |cwd: &str, roots: &[&str]| -> Vec<(&'static str, String)> {
                    let mut rs: Vec<String> = vec![];
                    if roots.is_empty() {
                        rs.push(cwd.to_string());
                    }
                    for r in roots {
                        let r = r.strip_prefix("ABS:").unwrap_or(r);
                        let mut comps: Vec<&str> = cwd.split('/').filter(|c| !c.is_empty()).collect();
                        for c in r.split('/') {
                            match c {
                                "." | "" => {}
                                ".." => {
                                    comps.pop();
                                }
                                c => comps.push(c),
                            }
                        }
                        rs.push(comps.join("/"));
                    }
                    AFILES
                        .iter()
                        .copied()
                        .filter_map(|f| {
                            rs.iter().filter(|r| r.is_empty() || f.starts_with(&format!("{}/", r))).max_by_key(|r| r.len()).map(|r| (f, r.clone()))
                        })
                        .collect()
                };
                loop {
                    let i = next.fetch_add(1, std::sync::atomic::Ordering::Relaxed);
                    if i >= total_items {
                        break;
                    }
                    // reset the rule files
                    for n in [".ignore", ".gitignore"] {
                        let _ = std::fs::remove_file(pdir.join(n));
                    }
                    let _ = std::fs::remove_dir_all(pdir.join(".git"));
                    let _ = std::fs::remove_dir_all(scratch.path.join("home/.config"));
                    let (label, cwd, roots, extra, want): (String, &str, Vec<&str>, Vec<String>, BTreeSet<String>);
                    if i < work.len() {
                        let (ri, ro, si, hidden, ci) = work[i];
                        let lines = &rule_sets[ri];
                        let (c, r) = &root_sets[ro];
                        let swap = |l: &str| -> String { l.chars().map(|ch| if ch.is_ascii_uppercase() { ch.to_ascii_lowercase() } else { ch.to_ascii_uppercase() }).collect() };
                        let text: String = lines.iter().map(|l| if ci { format!("{}\n", swap(l)) } else { format!("{}\n", l) }).collect();
                        let rules_file = scratch.path.join("extra.rules");
                        if si == 0 {
                            std::fs::write(pdir.join(".ignore"), &text).unwrap();
                        } else if si == 1 {
                            std::fs::create_dir_all(pdir.join(".git")).unwrap();
                            std::fs::write(pdir.join(".gitignore"), &text).unwrap();
                        } else if si == 2 {
                            std::fs::write(&rules_file, &text).unwrap();
                        } else if si == 3 {
                            std::fs::create_dir_all(pdir.join(".git")).unwrap();
                            std::fs::create_dir_all(scratch.path.join("home/.config/git")).unwrap();
                            std::fs::write(scratch.path.join("home/.config/git/ignore"), &text).unwrap();
                        } else {
                            std::fs::create_dir_all(pdir.join(".git/info")).unwrap();
                            std::fs::write(pdir.join(".git/info/exclude"), &text).unwrap();
                        }
                        cwd = c;
                        roots = r.clone();
                        let mut ex: Vec<String> = if hidden { vec!["--hidden".to_string()] } else { vec![] };
                        if ci {
                            ex.push("--ignore-file-case-insensitive".to_string());
                        }
                        if si == 2 {
                            ex.push("--ignore-file".to_string());
                            ex.push(rules_file.display().to_string());
                        }
                        extra = ex;
                        // a hidden entry (a name starting with a dot, strictly
                        // below the root) is skipped unless --hidden is given
                        let is_hidden = |f: &str, root: &str| -> bool {
                            let skip = root.split('/').filter(|c| !c.is_empty()).count();
                            f.split('/').skip(skip).any(|c| c.starts_with('.'))
                        };
                        want = under(cwd, &roots)
                            .into_iter()
                            .filter(|(f, r)| hidden || !is_hidden(f, r))
                            .filter(|(f, r)| !anchored_ignored(lines, f, r))
                            .map(|(f, _)| f.to_string())
                            .collect();
                        label = format!("{} {:?}{} | cwd P/{} | roots {:?}", match si { 2 => "--ignore-file".to_string(), 3 => "~/.config/git/ignore".to_string(), 4 => "P/.git/info/exclude".to_string(), _ => format!("P/.{}", sources[si]) }, lines, format!("{}{}", if hidden { " --hidden" } else { "" }, if ci { " (written in the opposite case, --ignore-file-case-insensitive)" } else { "" }), c, r);
                        if want.len() < under(cwd, &roots).len() {
                            local.nontrivial += 1;
                        }
                    } else {
                        let j = i - work.len();
                        let globs = &glob_sets[j / 6];
                        let (c, r): (&str, Vec<&str>) = match j % 6 {
                            0 => ("", vec!["R"]),
                            1 => ("", vec!["./R"]),
                            2 => ("", vec!["ABS:R"]),
                            3 => ("", vec!["R", "Q"]),
                            4 => ("", vec![]),
                            _ => ("", vec!["ABS:R", "ABS:Q"]),
                        };
                        cwd = c;
                        roots = r;
                        extra = globs.iter().flat_map(|g| vec!["-g".to_string(), g.to_string()]).collect();
                        // -g: '!x' excludes; a set with any plain glob searches only what matches one
                        let excl: Vec<&str> = globs.iter().filter_map(|g| g.strip_prefix('!')).collect();
                        let incl: Vec<&str> = globs.iter().copied().filter(|g| !g.starts_with('!')).collect();
                        let glob_hit = |g: &str, f: &str| -> bool {
                            let dir_only = g.ends_with('/');
                            let pat = g.trim_end_matches('/').trim_start_matches('/');
                            if let Some((d, _)) = pat.split_once("/*.x") {
                                return f.starts_with(&format!("{}/", d)) && f[d.len() + 1..].ends_with(".x") && !f[d.len() + 1..].contains('/');
                            }
                            (!dir_only && f == pat) || f.starts_with(&format!("{}/", pat))
                        };
                        want = under(cwd, &roots)
                            .into_iter()
                            .map(|(f, _)| f)
                            // a -g glob that matches overrides everything, the
                            // hidden filter included
                            .filter(|f| !f.split('/').any(|c| c.starts_with('.')) || incl.iter().any(|g| glob_hit(g, f)))
                            .filter(|f| !excl.iter().any(|g| glob_hit(g, f)))
                            .filter(|f| incl.is_empty() || incl.iter().any(|g| glob_hit(g, f)))
                            .map(|f| f.to_string())
                            .collect();
                        label = format!("-g {:?} | cwd P | roots {:?}", globs, roots);
                        local.nontrivial += 1;
                    }
                    for threads in ["sort", "-j1"] {
                        match run(cwd, &roots, &extra, threads, None) {
                            Err(e) => local.disc.push((format!("anchored | error | {}", label), json!({"kind":"rg-error","error":e}))),
                            Ok((got, _)) => {
                                local.runs += 1;
                                if got != want && local.disc.len() < 40 {
                                    local.disc.push((
                                        format!("anchored | {} | {}", label, threads),
                                        json!({"kind":"anchored","case":label,"threads":threads,"rg_lists":got,"reference_lists":want}),
                                    ));
                                }
                            }
                        }
                    }
                    // two threads: every schedule with at most one preemption (budget 60)
                    let mut stack = vec![sched::Node::root()];
                    let mut budget = if roots.len() > 1 { tier.pick(60, 400) } else { 1 };
                    while let Some(node) = stack.pop() {
                        if budget == 0 {
                            break;
                        }
                        budget -= 1;
                        match run(cwd, &roots, &extra, "-j2", Some(&node.prefix)) {
                            Err(e) => local.disc.push((format!("anchored | error | {}", label), json!({"kind":"rg-error","error":e}))),
                            Ok((got, trace)) => {
                                local.runs += 1;
                                local.schedules += 1;
                                if got != want && local.disc.len() < 40 {
                                    local.disc.push((
                                        format!("anchored | {} | -j2", label),
                                        json!({"kind":"anchored","case":label,"threads":"-j2","schedule_prefix":node.prefix,"rg_lists":got,"reference_lists":want}),
                                    ));
                                }
                                if let Some(t) = trace {
                                    if t.abort.is_none() {
                                        stack.extend(sched::children(&node, &t, 1, 0));
                                    }
                                }
                            }
                        }
                    }
                }
                let mut r = res.lock().unwrap();
                r.runs += local.runs;
                r.schedules += local.schedules;
                r.nontrivial += local.nontrivial;
                r.disc.extend(local.disc);
            });
        }
    });
    res.into_inner().unwrap()
}

pub fn run(args: &Args) -> ! {
    if let Some(r) = &args.replay {
        replay(r);
    }
    let tier = args.tier;
    let mut ev = Evidence::new(args, "exploration");
    let mut verdict = Verdict::new("C05");
    let rg = build_rg();
    let mut scns: Vec<Scn> = vec![];
    let base = |rules: Vec<Rule>, git: GitAt| Scn { rules, git, flags: vec![], types: TypeSel::None, max_depth: None, root: Root::Dot };
    for git in [GitAt::Nowhere, GitAt::P, GitAt::R] {
        let uni = rule_universe(git);
        // (a) rule conflicts: every single rule and every pair of rules on the
        // same target from different (source, place), with and without
        // --no-require-git
        for (i, a) in uni.iter().enumerate() {
            for fl in [vec![], vec!["--no-require-git"]] {
                let mut s = base(vec![*a], git);
                s.flags = fl;
                scns.push(s);
            }
            for b in uni.iter().skip(i + 1) {
                if a.target != b.target || (a.src == b.src && a.place == b.place) {
                    continue;
                }
                scns.push(base(vec![*a, *b], git));
            }
        }
        if tier == Tier::Thorough {
            // triples on the file probe
            let f: Vec<&Rule> = uni.iter().filter(|r| r.target == Target::File).collect();
            for i in 0..f.len() {
                for j in i + 1..f.len() {
                    for k in j + 1..f.len() {
                        let (a, b, c) = (f[i], f[j], f[k]);
                        let distinct = |x: &Rule, y: &Rule| !(x.src == y.src && x.place == y.place);
                        if distinct(a, b) && distinct(a, c) && distinct(b, c) && (i + j + k) % 2 == 0 {
                            scns.push(base(vec![*a, *b, *c], git));
                        }
                    }
                }
            }
        }
        // (b) flags: every single rule x every flag alone and every pair of flags
        for a in uni.iter() {
            for (i, f1) in FLAGS.iter().enumerate() {
                let mut s = base(vec![*a], git);
                s.flags = vec![f1];
                scns.push(s);
                for f2 in FLAGS.iter().skip(i + 1) {
                    if f1.starts_with("-u") && f2.starts_with("-u") {
                        continue;
                    }
                    let mut s = base(vec![*a], git);
                    s.flags = vec![f1, f2];
                    scns.push(s);
                }
            }
            // (c) types, depth, roots
            for types in [TypeSel::SelectX, TypeSel::NegateX, TypeSel::SelectXNegateQ, TypeSel::NegateQSelectX, TypeSel::SelectXNegateY] {
                let mut s = base(vec![*a], git);
                s.types = types;
                scns.push(s);
            }
            for d in 0..=2 {
                let mut s = base(vec![*a], git);
                s.max_depth = Some(d);
                scns.push(s);
            }
            for root in [Root::Relative, Root::Absolute, Root::Sub, Root::ExplicitFileAndSub] {
                for fl in [vec![], vec!["--no-ignore-parent"], vec!["--hidden"]] {
                    let mut s = base(vec![*a], git);
                    s.root = root;
                    s.flags = fl;
                    scns.push(s);
                }
            }
        }
    }
    let n = scns.len();
    let next = std::sync::atomic::AtomicUsize::new(0);
    let res = std::sync::Mutex::new((0u64, 0u64, Vec::<(String, Value)>::new()));
    std::thread::scope(|sc| {
        for _ in 0..ncpu() {
            sc.spawn(|| {
                let w = World::new(&rg);
                let (mut runs, mut nontrivial, mut disc) = (0u64, 0u64, vec![]);
                loop {
                    let i = next.fetch_add(1, std::sync::atomic::Ordering::Relaxed);
                    if i >= n {
                        break;
                    }
                    let s = &scns[i];
                    let want = model_listing(s);
                    match w.run(s) {
                        Err(e) => disc.push((format!("error | {:?}", s), json!({"kind":"rg-error","error":e,"scenario":format!("{:?}", s)}))),
                        Ok(got) => {
                            runs += 1;
                            if want.len() < FILES.len() {
                                nontrivial += 1;
                            }
                            if got != want && disc.len() < 80 {
                                disc.push((
                                    format!("{:?} | git {:?} | {:?} | {:?} | depth {:?} | {:?}", s.rules, s.git, s.flags, s.types, s.max_depth, s.root),
                                    json!({"kind":"precedence","rules":format!("{:?}", s.rules),"git":format!("{:?}", s.git),"flags":s.flags,"types":format!("{:?}", s.types),
                                           "max_depth":s.max_depth,"root":format!("{:?}", s.root),
                                           "rg_lists":got,"model_lists":want,"index":i}),
                                ));
                            }
                        }
                    }
                }
                let mut r = res.lock().unwrap();
                r.0 += runs;
                r.1 += nontrivial;
                r.2.extend(disc);
            });
        }
    });
    let (mut runs, mut nontrivial, disc) = res.into_inner().unwrap();
    for (k, v) in disc.iter() {
        verdict.discrepancy(None, k, v.clone());
    }
    let anch = anchored_layer(&rg, tier);
    for (k, v) in anch.disc.iter() {
        verdict.discrepancy(None, k, v.clone());
    }
    if anch.nontrivial == 0 || anch.schedules == 0 {
        machinery_error("C05: the anchored-rule layer is vacuous");
    }
    runs += anch.runs;
    nontrivial += anch.nontrivial;
    ev.set("anchored_rule_runs", anch.runs);
    ev.set("anchored_rule_two_thread_schedules", anch.schedules);
    if nontrivial == 0 {
        machinery_error("C05: no scenario ever filtered a file");
    }
    ev.set("evaluations", runs);
    ev.set("distinct_nontrivial", nontrivial);
    ev.set("exhaustive", true);
    ev.set("scenarios", n);
    ev.set(
        "rule",
        "tree P/R/S (P above the search root, R the root, S a subdirectory) with probe entries t.x (file), .h (hidden file), d/ (directory with a file) and controls in R and S; .git in {nowhere, P, R}. Rule = (source in {-g, .rgignore, .ignore, .gitignore, .git/info/exclude, global git ignore, --ignore-file}, placement in {P,R,S} where meaningful, ignore | whitelist, probe). Scenarios: every single rule and every conflicting pair on the same probe (thorough: half of all triples on the file probe) x repository placement, with and without --no-require-git; every single rule x each of --hidden --no-ignore --no-ignore-vcs/-dot/-exclude/-global/-parent/-files --no-require-git -u -uu -uuu alone and in pairs; -t / -T with --type-add, alone and mixed in both orders (a selection plus a negation: files of neither type stay excluded); --max-depth 0..2; roots '.', relative, absolute, a subdirectory (so that R and P are parents), an explicit file plus a directory. Observation: `rg --files --sort path`. Oracle: a reference model of the documented precedence (overrides; .rgignore > .ignore > .gitignore > .git/info/exclude > global > --ignore-file, nearest directory first, git sources gated by the repository and --no-require-git, parents by --no-ignore-parent; then types; then hidden unless whitelisted; explicit paths always). Layer 2 (rules containing a slash, hidden names): 22 rule sets in P/.ignore, P/.gitignore or a file given with --ignore-file (rules relative to the current directory P), anchored at P (/R/t.x, /R/S/t.x, /R/S/U/t.x, R/S/t.x, directory forms, rules for a second tree Q, blanket t.x with an anchored re-include, rules for hidden names .h.x / a hidden directory, run with and without --hidden; hidden entries incl. a name ending in a dot must be skipped without --hidden) x 15 ways of naming the roots (R, ./R, R/, absolute, R Q, Q R, R/S Q, from inside R and R/S, . ../Q ...) and 6 -g glob sets with a slash x 6 root spellings, each listed with --sort path, -j1 and -j2 — the latter under the replay scheduler, every schedule with at most one preemption (budget 60 per case) when there are several roots; reference: a rule with a slash matches exactly its path below the directory of its ignore file (below the current directory for -g), whatever the roots, their order, the depth of the entry and the schedule. distinct_nontrivial = scenarios in which the model filters at least one file.",
    );
    ev.set("samples", json!([{"rules": "[.ignore@R !t.x, .gitignore@S t.x]", "git": "R", "flags": ["--no-ignore-dot"]}]));
    ev.assume("patterns are plain names or literal paths; glob semantics are C04/C12's subject");
    verdict.finish(ev)
}

fn replay(path: &str) -> ! {
    let text = std::fs::read_to_string(path).unwrap_or_else(|_| machinery_error("cannot read replay"));
    let v: Value = serde_json::from_str(&text).unwrap_or_else(|_| machinery_error("bad replay"));
    println!("scenario: rules {} git {} flags {} types {} max_depth {} root {}\n rg lists    {}\n model lists {}", v["rules"], v["git"], v["flags"], v["types"], v["max_depth"], v["root"], v["rg_lists"], v["model_lists"]);
    std::process::exit(2)
}
