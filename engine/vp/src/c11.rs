//! C11 — line-mode matcher promises for every accepted pattern over ALL
//! lines. E2: per (pattern, option set) the final HIR and the extracted inner
//! literals of the REAL matcher (hooks) are turned into DFAs and four product
//! automata are explored breadth-first; every witness and one shortest path
//! per product state are replayed on the real matcher.

use std::collections::BTreeMap;

use grep_matcher::{LineMatchKind, Matcher};
use regex_syntax::hir::Hir;
use serde_json::json;

use crate::{auto, core::*, rx::*};

pub fn option_sets(tier: Tier) -> Vec<Opts> {
    let mut v = vec![];
    let b = Opts::base;
    v.push(b(Lt::Lf));
    v.push(Opts { case: Case::Insensitive, ..b(Lt::Lf) });
    v.push(Opts { case: Case::Smart, ..b(Lt::Lf) });
    v.push(Opts { word: true, ..b(Lt::Lf) });
    v.push(Opts { whole_line: true, ..b(Lt::Lf) });
    v.push(b(Lt::Crlf));
    v.push(Opts { word: true, ..b(Lt::Crlf) });
    v.push(b(Lt::Nul));
    v.push(Opts { unicode: false, ..b(Lt::Lf) });
    v.push(Opts { fixed: true, ..b(Lt::Lf) });
    v.push(Opts { ban_nul: true, ..b(Lt::Lf) });
    v.push(b(Lt::None));
    v.push(Opts { whole_line: true, ..b(Lt::Crlf) });
    v.push(Opts { fixed: true, ..b(Lt::Crlf) });
    // the remaining builder switches
    v.push(Opts { xmode: true, ..b(Lt::Lf) });
    v.push(Opts { xmode: true, fixed: true, ..b(Lt::Lf) });
    v.push(Opts { dotall: true, ..b(Lt::Lf) });
    v.push(Opts { swap_greed: true, ..b(Lt::Lf) });
    if tier == Tier::Thorough {
        v.push(Opts { xmode: true, fixed: true, case: Case::Insensitive, ..b(Lt::Crlf) });
        v.push(Opts { dotall: true, ..b(Lt::Crlf) });
        v.push(Opts { case: Case::Insensitive, ..b(Lt::Crlf) });
        v.push(Opts { case: Case::Insensitive, word: true, ..b(Lt::Lf) });
        v.push(Opts { unicode: false, word: true, ..b(Lt::Lf) });
        v.push(Opts { unicode: false, ..b(Lt::Crlf) });
        v.push(Opts { word: true, ..b(Lt::Nul) });
        v.push(Opts { whole_line: true, ..b(Lt::Nul) });
        v.push(Opts { fixed: true, word: true, ..b(Lt::Lf) });
        v.push(Opts { case: Case::Smart, word: true, ..b(Lt::Lf) });
        v.push(Opts { word: true, ..b(Lt::None) });
        v.push(Opts { case: Case::Insensitive, ..b(Lt::None) });
    }
    v
}

#[derive(Default)]
pub struct Acc {
    pub pairs: u64,
    pub accepted: u64,
    pub rejected: u64,
    pub rejected_with_terminator_free_matches: u64,
    pub unjudged: u64,
    pub with_literals: u64,
    pub stats: auto::Stats,
    pub replays: u64,
    pub capped: u64,
    pub dfa_failed: u64,
    pub nonmatching_bytes_checked: u64,
    pub disc: Vec<(String, serde_json::Value)>,
    pub drift: Vec<String>,
}

impl Acc {
    pub fn merge(&mut self, a: Acc) {
        self.pairs += a.pairs;
        self.accepted += a.accepted;
        self.rejected += a.rejected;
        self.rejected_with_terminator_free_matches += a.rejected_with_terminator_free_matches;
        self.unjudged += a.unjudged;
        self.with_literals += a.with_literals;
        self.stats.add(&a.stats);
        self.replays += a.replays;
        self.capped += a.capped;
        self.dfa_failed += a.dfa_failed;
        self.nonmatching_bytes_checked += a.nonmatching_bytes_checked;
        self.disc.extend(a.disc);
        self.drift.extend(a.drift);
    }
}

/// Run a DFA (unanchored, start of haystack) over a whole line; None if it quits.
pub fn dfa_matches(d: &auto::D, line: &[u8]) -> Option<bool> {
    let mut s = d.start(false, None)?;
    let mut seen = false;
    for &b in line {
        s = d.step(s, b);
        if d.is_quit(s) {
            return None;
        }
        if d.is_match(s) {
            seen = true;
        }
    }
    let e = d.eoi(s);
    Some(seen || d.is_match(e))
}

fn literal_hir(lits: &[Vec<u8>]) -> Hir {
    Hir::alternation(lits.iter().map(|l| Hir::literal(l.clone())).collect())
}

pub fn check_pair(pat: &str, o: &Opts, acc: &mut Acc) {
    acc.pairs += 1;
    let real = o.build(&[pat]);
    let spec = spec_hir(&[pat], o);
    let key = |what: &str| format!("{} | {} | {}", what, o.show(), pat);
    let rj = |what: &str, w: &[u8], extra: serde_json::Value| {
        json!({"kind": what, "pattern": pat, "options": o.show(), "opts": opts_json(o), "witness_line": esc(w), "detail": extra})
    };
    let forbidden = o.forbidden_in_match();
    let term = o.term_bytes();
    let real = match real {
        Ok(m) => m,
        Err(_) => {
            acc.rejected += 1;
            // informational: was the rejection forced?
            if let Ok((sh, _)) = &spec {
                if let Ok(ds) = auto::build(sh) {
                    let al = auto::reps(&[&ds], &forbidden, &[]);
                    if let Some(st) = ds.start(false, None) {
                        let ex = auto::product_bfs(&[&ds], &[st], &al, &[vec![(vec![], true)]], &|_, _| true, &|_, f| if f[0] { Some("m".into()) } else { None }, 0);
                        acc.stats.add(&ex.stats);
                        if ex.witness.is_some() {
                            acc.rejected_with_terminator_free_matches += 1;
                        }
                    }
                }
            }
            return;
        }
    };
    acc.accepted += 1;
    let final_hir = real.verif_final_hir().clone();
    let d_final = match auto::build(&final_hir) {
        Ok(d) => d,
        Err(_) => {
            acc.dfa_failed += 1;
            return;
        }
    };
    // ---- (a) the terminator is never inside a match, and (c)
    //          non_matching_bytes is sound: one graph analysis of the anchored
    //          DFA tells which bytes can occur inside a match at all ----------
    {
        let mut ask: Vec<u8> = forbidden.clone();
        let mut nm: Vec<u8> = vec![];
        if let Some(set) = real.non_matching_bytes() {
            // one representative per DFA byte class of the declared bytes
            let mut seen_class = std::collections::BTreeSet::new();
            for b in 0..=255u8 {
                if set.contains(b) {
                    acc.nonmatching_bytes_checked += 1;
                    if seen_class.insert(d_final.class(b)) {
                        nm.push(b);
                    }
                }
            }
        }
        for &b in nm.iter() {
            if !ask.contains(&b) {
                ask.push(b);
            }
        }
        if !ask.is_empty() {
            let al = auto::reps(&[&d_final], &[], &ask);
            let mut ctxs: Vec<Option<u8>> = vec![None];
            ctxs.extend(al.iter().map(|&b| Some(b)));
            let (st, found) = auto::bytes_in_matches(&d_final, &ctxs, &al, &ask);
            acc.stats.add(&st);
            if st.capped {
                acc.capped += 1;
            }
            for (b, w) in found {
                // confirm on the real matcher: some match in the witness
                // haystack (in some look-behind context) contains the byte
                let mut confirmed = false;
                let mut hays: Vec<Vec<u8>> = vec![w.clone()];
                for &c in al.iter() {
                    let mut h = vec![c];
                    h.extend(w.iter());
                    hays.push(h);
                }
                'outer: for h in hays.iter() {
                    let mut at = 0;
                    while at <= h.len() {
                        match real.find_at(h, at) {
                            Ok(Some(m)) => {
                                if h[m.start()..m.end()].contains(&b) {
                                    confirmed = true;
                                    break 'outer;
                                }
                                at = if m.end() > at { m.end() } else { at + 1 };
                            }
                            _ => break,
                        }
                    }
                }
                acc.replays += 1;
                let what = if forbidden.contains(&b) { "terminator-in-match" } else { "non-matching-byte-in-match" };
                if confirmed {
                    acc.disc.push((key(what), rj(what, &w, json!({"byte": b}))));
                } else {
                    acc.drift.push(key(&format!("{} byte {} witness {:?} (not confirmed by the real matcher)", what, b, esc(&w))));
                }
            }
        }
    }
    // ---- (b) accepted => final HIR == the pattern as written, on all
    //          terminator-free lines ------------------------------------------
    match &spec {
        Err(_) => acc.unjudged += 1,
        Ok((sh, _)) => match auto::build(sh) {
            Err(_) => acc.dfa_failed += 1,
            Ok(d_spec) => {
                // (under CRLF the matcher is documented never to match \r
                // either, so a bare CR inside a line is outside this clause)
                let al = auto::reps(&[&d_spec, &d_final], &forbidden, &[]);
                if let (Some(s1), Some(s2)) = (d_spec.start(false, None), d_final.start(false, None)) {
                    let ex = auto::product_bfs(
                        &[&d_spec, &d_final],
                        &[s1, s2],
                        &al,
                        &[vec![(vec![], true), (vec![], true)]],
                        &|_, _| true,
                        &|_, f| if f[0] != f[1] { Some(format!("as written matches: {}, built matcher matches: {}", f[0], f[1])) } else { None },
                        24,
                    );
                    acc.stats.add(&ex.stats);
                    if ex.stats.capped {
                        acc.capped += 1;
                    }
                    // bind the model to the code: replay sample paths
                    for p in ex.sample_paths.iter() {
                        if let Some(v) = dfa_matches(&d_final, p) {
                            acc.replays += 1;
                            if real_is_match(&real, p) != v {
                                acc.drift.push(key(&format!("final-HIR DFA vs real matcher on {:?}", esc(p))));
                            }
                        }
                    }
                    if let Some(w) = ex.witness {
                        acc.replays += 1;
                        let sr = spec_regex(sh).map(|r| r.is_match(&w.line[..]));
                        let rr = real_is_match(&real, &w.line);
                        if sr.is_some() && sr != Some(rr) {
                            acc.disc.push((key("pattern-altered"), rj("pattern-altered", &w.line, json!({"what": w.what}))));
                        } else {
                            acc.drift.push(key("pattern-altered (not confirmed)"));
                        }
                    }
                }
            }
        },
    }
    // ---- (d) the candidate-line literals never miss a matching line ---------
    if let Some(lits) = real.verif_inner_literals() {
        acc.with_literals += 1;
        for l in lits {
            if l.iter().any(|b| forbidden.contains(b)) {
                acc.disc.push((key("literal-contains-terminator"), rj("literal-contains-terminator", l, json!({}))));
            }
        }
        if let Ok(d_l) = auto::build(&literal_hir(lits)) {
            let al = auto::reps(&[&d_final, &d_l], &term, &[]);
            if let (Some(s1), Some(s2)) = (d_final.start(false, None), d_l.start(false, None)) {
                let ex = auto::product_bfs(
                    &[&d_final, &d_l],
                    &[s1, s2],
                    &al,
                    &[vec![(vec![], true), (vec![], true)]],
                    &|_, _| true,
                    &|_, f| if f[0] && !f[1] { Some("the line matches but contains none of the candidate literals".into()) } else { None },
                    8,
                );
                acc.stats.add(&ex.stats);
                if ex.stats.capped {
                    acc.capped += 1;
                }
                if let Some(w) = ex.witness {
                    // confirm: the real matcher matches the line, yet its
                    // candidate search passes over it
                    acc.replays += 1;
                    let mut buf = w.line.clone();
                    buf.push(term.first().copied().unwrap_or(b'\n'));
                    let is = real_is_match(&real, &w.line);
                    let cand = real.find_candidate_line(&buf).ok().flatten();
                    let passed_over = match cand {
                        None => true,
                        Some(LineMatchKind::Candidate(i)) | Some(LineMatchKind::Confirmed(i)) => i > w.line.len(),
                    };
                    if is && passed_over {
                        acc.disc.push((key("candidate-search-misses-line"), rj("candidate-search-misses-line", &w.line, json!({"literals": lits.iter().map(|l| esc(l)).collect::<Vec<_>>()}))));
                    } else {
                        acc.drift.push(key("candidate-miss (not confirmed)"));
                    }
                }
            }
        } else {
            acc.dfa_failed += 1;
        }
    }
}

pub fn opts_json(o: &Opts) -> serde_json::Value {
    json!({"lt": format!("{:?}", o.lt), "case": format!("{:?}", o.case), "word": o.word, "whole_line": o.whole_line, "fixed": o.fixed, "unicode": o.unicode, "ban_nul": o.ban_nul, "xmode": o.xmode, "dotall": o.dotall, "swap_greed": o.swap_greed})
}

pub fn opts_from_json(v: &serde_json::Value) -> Opts {
    Opts {
        lt: match v["lt"].as_str() {
            Some("Crlf") => Lt::Crlf,
            Some("Nul") => Lt::Nul,
            Some("None") => Lt::None,
            _ => Lt::Lf,
        },
        case: match v["case"].as_str() {
            Some("Insensitive") => Case::Insensitive,
            Some("Smart") => Case::Smart,
            _ => Case::Sensitive,
        },
        word: v["word"].as_bool().unwrap_or(false),
        whole_line: v["whole_line"].as_bool().unwrap_or(false),
        fixed: v["fixed"].as_bool().unwrap_or(false),
        unicode: v["unicode"].as_bool().unwrap_or(true),
        ban_nul: v["ban_nul"].as_bool().unwrap_or(false),
        xmode: v["xmode"].as_bool().unwrap_or(false),
        dotall: v["dotall"].as_bool().unwrap_or(false),
        swap_greed: v["swap_greed"].as_bool().unwrap_or(false),
    }
}

pub fn pattern_universe(tier: Tier) -> (Vec<String>, String, std::ops::Range<usize>) {
    let mut pats = token_patterns(tier.pick(3, 3));
    let n_tok = pats.len();
    let tmpl = template_patterns();
    let step = tier.pick(27, 1);
    let n_before = pats.len();
    pats.extend(tmpl.iter().step_by(step).cloned());
    let n_tmpl = pats.len() - n_before;
    let spec = special_patterns();
    let n_spec = spec.len();
    let special_from = pats.len();
    pats.extend(spec);
    let harv = harvested_patterns(tier.pick(400, 4000));
    let n_h = harv.len();
    pats.extend(harv);
    let desc = format!(
        "{} patterns: every token string of length <= 3 over {:?} that parses ({}), {} of the 29403 template patterns X L Y L' Z (every {}th), {} patterns on the literal extractor's limits or with raw control characters (under every option set), {} string literals harvested from the repository's tests",
        pats.len(), TOKENS, n_tok, n_tmpl, step, n_spec, n_h
    );
    (pats, desc, special_from..special_from + n_spec)
}

/// Patterns with text anchors (`\A`, `\z`, non-multi-line `^` / `$`). The
/// matcher must not declare a line terminator for them unless running it over
/// a whole buffer still finds every line that matches on its own; bounded
/// exhaustive enumeration of two-line buffers, emulating the searcher's use of
/// `find_candidate_line`.
/// Pattern LISTS (several -e / -f patterns), with and without fixed strings:
/// every list of up to three patterns over a pool in which some patterns hold
/// a terminator byte. Whatever the builder does with the list (reject it, or
/// accept it), a matcher that comes out may never produce a match holding a
/// byte that is forbidden for its terminator.
fn list_family() -> (u64, u64, u64, Vec<(String, serde_json::Value)>) {
    use grep_matcher::Matcher;
    let pool: [&str; 7] = ["a", "b\nc", "\n", "a\r\nb", "x\0y", "ab", "c\rd"];
    let mut lists: Vec<Vec<&str>> = vec![];
    for a in pool {
        lists.push(vec![a]);
        for b in pool {
            lists.push(vec![a, b]);
            for c in ["a", "b\nc", "x\0y"] {
                lists.push(vec![a, b, c]);
            }
        }
    }
    let (mut built, mut accepted, mut rejected) = (0u64, 0u64, 0u64);
    let mut disc = vec![];
    for lt in [Lt::Lf, Lt::Crlf, Lt::Nul] {
        let forbidden: &[u8] = match lt {
            Lt::Lf => b"\n",
            Lt::Crlf => b"\r\n",
            _ => b"\0",
        };
        for fixed in [true, false] {
            for case in [Case::Sensitive, Case::Insensitive, Case::Smart] {
                let mut o = Opts::base(lt);
                o.fixed = fixed;
                o.case = case;
                for l in lists.iter() {
                    built += 1;
                    let Ok(m) = o.build(l) else {
                        rejected += 1;
                        continue;
                    };
                    accepted += 1;
                    // haystack: every pattern of the list, separated by '-'
                    let mut h: Vec<u8> = vec![];
                    for p in l.iter() {
                        h.extend(p.bytes());
                        h.push(b'-');
                    }
                    let mut at = 0;
                    while at <= h.len() {
                        let Ok(Some(mm)) = m.find_at(&h, at) else { break };
                        if h[mm.start()..mm.end()].iter().any(|b| forbidden.contains(b)) {
                            if disc.len() < 20 {
                                disc.push((
                                    format!("pattern-list | {} | {:?}", o.show(), l),
                                    serde_json::json!({"kind":"match-holds-a-terminator-byte","options":o.show(),"patterns":l,"haystack":esc(&h),"match":[mm.start(), mm.end()]}),
                                ));
                            }
                            break;
                        }
                        at = if mm.end() > at { mm.end() } else { at + 1 };
                    }
                }
            }
        }
    }
    (built, accepted, rejected, disc)
}

fn anchor_family() -> (u64, u64, u64, Vec<(String, serde_json::Value)>) {
    use grep_matcher::Matcher;
    let pats = [
        "fo\\z", "\\w+\\z", "(?-m)\\w+$", "(?-m:fo$)", "o\\z|x", "\\Afo", "(?-m)^fo", "(?-m:^f)o", "\\Ao|\\Ax", "f\\z|\\Ao", "(?-m:^)x*(?-m:$)", "\\bfo\\z",
    ];
    let al = [b'f', b'o', b'x'];
    let n = seq_count(al.len(), 3);
    let mut idx = vec![];
    let lines: Vec<Vec<u8>> = (0..n)
        .map(|i| {
            seq_decode(al.len(), i, &mut idx);
            idx.iter().map(|&k| al[k]).collect()
        })
        .collect();
    let (mut runs, mut declared, mut undeclared) = (0u64, 0u64, 0u64);
    let mut disc = vec![];
    for pat in pats {
        let pat = pat.replace("\\\\", "\\");
        for lt in [Lt::Lf, Lt::Crlf] {
            let o = Opts::base(lt);
            let Ok(m) = o.build(&[pat.as_str()]) else { continue };
            if m.line_terminator().is_none() {
                // the searcher then strips every line and asks the matcher
                // about the line alone: nothing to pass over
                undeclared += 1;
                continue;
            }
            declared += 1;
            let term: &[u8] = if lt == Lt::Crlf { b"\r\n" } else { b"\n" };
            let mut reported = 0;
            'bufs: for l1 in lines.iter() {
                for l2 in lines.iter() {
                    let mut buf = l1.clone();
                    buf.extend_from_slice(term);
                    let s2 = buf.len();
                    buf.extend_from_slice(l2);
                    buf.extend_from_slice(term);
                    let spans = [(0usize, l1.len(), s2), (s2, s2 + l2.len(), buf.len())];
                    let mut visited = [false, false];
                    let mut pos = 0usize;
                    while pos < buf.len() {
                        let Some(k) = m.find_candidate_line(&buf[pos..]).ok().flatten() else { break };
                        let i = pos + match k {
                            LineMatchKind::Candidate(i) | LineMatchKind::Confirmed(i) => i,
                        };
                        let Some(li) = spans.iter().position(|&(s, _, e)| s <= i && i < e) else { break };
                        visited[li] = true;
                        pos = spans[li].2;
                    }
                    runs += 1;
                    for (li, &(s, e, _)) in spans.iter().enumerate() {
                        if m.is_match(&buf[s..e]).unwrap_or(false) && !visited[li] && reported < 3 {
                            reported += 1;
                            disc.push((
                                format!("candidate-search-passes-over-line | {} | {} | {}", o.show(), pat, esc(&buf)),
                                json!({"kind":"anchor-family","pattern":pat,"opts":opts_json(&o),"buffer":esc(&buf),"line":esc(&buf[s..e]),
                                       "why":"the matcher declares a line terminator, the line matches on its own, and the candidate search over the buffer never stops in it"}),
                            ));
                        }
                    }
                    if reported >= 3 {
                        break 'bufs;
                    }
                }
            }
        }
    }
    (runs, declared, undeclared, disc)
}

pub fn run(args: &Args) -> ! {
    if let Some(r) = &args.replay {
        replay(r);
    }
    let mut ev = Evidence::new(args, "model_checking");
    let mut verdict = Verdict::new("C11");
    let (pats, desc, specials) = pattern_universe(args.tier);
    let osets = option_sets(args.tier);
    // quick tier: the full pattern universe under the three core option sets
    // (LF, LF -w, CRLF); the other option sets see the token strings of
    // length <= 2; every 2nd template / harvested pattern under the core sets
    let n2 = token_patterns(2).len();
    let n3 = token_patterns(3).len();
    let core_sets = [0usize, 3, 5];
    let work: Vec<(usize, usize)> = (0..pats.len())
        .flat_map(|p| (0..osets.len()).map(move |o| (p, o)))
        .filter(|&(p, _)| match std::env::var("C11_ONLY").ok().as_deref() {
            Some("tok") => p < n3,
            Some("rest") => p >= n3,
            _ => true,
        })
        .filter(|&(p, o)| {
            args.tier == Tier::Thorough || specials.contains(&p) || (core_sets.contains(&o) && (p < n3 || p % 2 == 0)) || p < n2
        })
        .collect();
    let mut total = Acc::default();
    par_fold(
        work.len(),
        16,
        Acc::default,
        |acc, wi| {
            let (pi, oi) = work[wi];
            if pats[pi].contains("\\A") || pats[pi].contains("\\z") {
                return;
            }
            check_pair(&pats[pi], &osets[oi], acc);
        },
        |a| total.merge(a),
    );
    if !total.drift.is_empty() {
        for d in total.drift.iter().take(10) {
            eprintln!("MODEL-DRIFT: {}", d);
        }
        machinery_error("C11: the automaton model disagrees with the real matcher on a replayed path (model drift)");
    }
    let lists = list_family();
    for (k, v) in lists.3.iter() {
        verdict.discrepancy(None, k, v.clone());
    }
    if lists.1 == 0 || lists.2 == 0 {
        machinery_error("C11: the pattern-list family is vacuous");
    }
    ev.set("pattern_lists_built", lists.0);
    ev.set("pattern_lists_accepted", lists.1);
    ev.set("pattern_lists_rejected", lists.2);
    let anchors = anchor_family();
    for (k, v) in anchors.3.iter() {
        verdict.discrepancy(None, k, v.clone());
    }
    if anchors.1 + anchors.2 == 0 {
        machinery_error("C11: the text-anchor family built no matcher");
    }
    ev.set("text_anchor_family_buffers_probed", anchors.0);
    ev.set("text_anchor_matchers_declaring_a_line_terminator", anchors.1);
    ev.set("text_anchor_matchers_declaring_none_slow_path_only", anchors.2);
    for (k, v) in total.disc.iter() {
        verdict.discrepancy(None, k, v.clone());
    }
    if total.with_literals == 0 || total.accepted == 0 || total.rejected == 0 {
        machinery_error("C11: a mandatory coverage counter is zero");
    }
    ev.set("states", total.stats.states);
    ev.set("transitions", total.stats.transitions);
    ev.set("traces_validated_against_impl", total.replays);
    ev.set("evaluations", total.pairs);
    ev.set("distinct_nontrivial", total.accepted);
    ev.set("pattern_option_pairs", total.pairs);
    ev.set("accepted_matchers", total.accepted);
    ev.set("rejected_by_builder", total.rejected);
    ev.set("rejected_although_terminator_free_matches_exist", total.rejected_with_terminator_free_matches);
    ev.set("matchers_with_inner_literals", total.with_literals);
    ev.set("nonmatching_bytes_checked", total.nonmatching_bytes_checked);
    ev.set("paths_ended_by_dfa_quit_state_non_ascii_under_unicode_word_boundary", total.stats.quit_paths);
    ev.set("products_capped", total.capped);
    ev.set("dfa_builds_failed", total.dfa_failed);
    ev.set("spec_unparsable_unjudged", total.unjudged);
    ev.set("option_sets", osets.iter().map(|o| o.show()).collect::<Vec<_>>());
    ev.set(
        "rule",
        format!(
            "{}; x {} builder option sets. Per accepted matcher, four explicit-state explorations over ALL byte strings (one representative byte per joint DFA byte class): (a) anchored exploration of the final HIR's DFA from every look-behind context: no match contains a terminator byte; (b) product of the DFA of the pattern as written (harness-built from the flag documentation) and the final HIR's DFA over all terminator-free lines: same lines match; (c) as (a) for every byte in non_matching_bytes; (d) product of the final HIR's DFA and the DFA of the extracted inner literals: a matching line contains a literal, and literals are terminator-free. states/transitions = product states / transitions explored; traces_validated_against_impl = witnesses and shortest paths to product states replayed on the real RegexMatcher (is_match / find_at / find_candidate_line) with the DFA verdict compared (a disagreement is a machinery error, not a verdict). Unicode word boundaries: decided over ASCII lines (the DFA quits on non-ASCII). Pattern-list family: every list of up to three patterns over a pool where some hold \\n, \\r or NUL x LF / CRLF / NUL x fixed strings on / off x case modes: a matcher that comes out of build_many never yields a match holding a forbidden byte. Text-anchor family (\\A, \\z, non-multi-line ^ $; twelve patterns x LF / CRLF, built with multi_line as the command line does): a matcher that declares a line terminator is run over every two-line buffer of lines up to length 3 over {{f,o,x}} the way the searcher's fast path uses find_candidate_line, and must stop in every line that matches on its own; a matcher that declares none is only ever asked about single lines.",
            desc, osets.len()
        ),
    );
    ev.set("samples", json!([{"pattern": pats[pats.len() / 3], "options": osets[3].show()}, {"pattern": "\\w+ab\\w", "options": "Lf", "literals": ["ab"]}]));
    ev.assume("regex-syntax translation and regex-automata determinisation are the specification of pattern meaning");
    ev.assume("patterns outside the enumerated grammar / size bound are not covered");
    verdict.finish(ev)
}

fn replay(path: &str) -> ! {
    let text = std::fs::read_to_string(path).unwrap_or_else(|_| machinery_error("cannot read replay"));
    let v: serde_json::Value = serde_json::from_str(&text).unwrap_or_else(|_| machinery_error("bad replay"));
    let pat = v["pattern"].as_str().unwrap_or("");
    let o = opts_from_json(&v["opts"]);
    let mut acc = Acc::default();
    check_pair(pat, &o, &mut acc);
    for (k, d) in acc.disc.iter() {
        println!("{}\n  {}", k, d);
    }
    for d in acc.drift.iter() {
        println!("MODEL-DRIFT {}", d);
    }
    std::process::exit(if acc.disc.is_empty() { 0 } else { 1 })
}
