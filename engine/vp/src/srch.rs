//! Shared searcher harness: recording sink (with stop / error injection),
//! fragmenting and failing readers, toy matchers that pin the searcher's line
//! path (fast / candidate / slow), the grep reference model (DESIGN A.1).

use std::io;

use grep_matcher::{
    ByteSet, LineMatchKind, LineTerminator, Match, Matcher, NoCaptures, NoError,
};
use grep_searcher::{
    BinaryDetection, MmapChoice, Searcher, SearcherBuilder, Sink, SinkContext, SinkContextKind,
    SinkFinish, SinkMatch,
};

use crate::core::esc;

#[derive(Clone, Debug, PartialEq, Eq, Hash, PartialOrd, Ord)]
pub enum Ev {
    Begin,
    Match { bytes: Vec<u8>, line: Option<u64>, off: u64 },
    /// kind: 0 before, 1 after, 2 other (passthru)
    Ctx { kind: u8, bytes: Vec<u8>, line: Option<u64>, off: u64 },
    Break,
    Binary(u64),
    Finish { bytes: u64, binary: Option<u64> },
}

impl Ev {
    pub fn show(&self) -> String {
        match self {
            Ev::Begin => "begin".into(),
            Ev::Match { bytes, line, off } => format!("M[{}]@{}#{}", esc(bytes), off, line.map_or("-".into(), |l| l.to_string())),
            Ev::Ctx { kind, bytes, line, off } => format!(
                "{}[{}]@{}#{}",
                ["B", "A", "O"][*kind as usize],
                esc(bytes),
                off,
                line.map_or("-".into(), |l| l.to_string())
            ),
            Ev::Break => "--".into(),
            Ev::Binary(o) => format!("binary@{}", o),
            Ev::Finish { bytes, binary } => format!("finish({},{:?})", bytes, binary),
        }
    }
}

pub fn show(evs: &[Ev]) -> String {
    evs.iter().map(|e| e.show()).collect::<Vec<_>>().join(" ")
}

#[derive(Clone, Copy, Debug, PartialEq, Eq)]
pub enum Answer {
    Stop,
    Fail,
}

/// Records every sink call. At event index `deviate.0` (counting begin,
/// matched, context, context_break and binary_data calls from 0; finish is not
/// answerable) it answers `Ok(false)` or `Err`.
pub struct Rec {
    pub events: Vec<Ev>,
    pub deviate: Option<(usize, Answer)>,
    pub calls_after_deviation: usize,
    pub deviated: bool,
    pub finishes: usize,
}

impl Rec {
    pub fn new() -> Rec {
        Rec { events: vec![], deviate: None, calls_after_deviation: 0, deviated: false, finishes: 0 }
    }
    pub fn with(deviate: Option<(usize, Answer)>) -> Rec {
        Rec { deviate, ..Rec::new() }
    }
    fn answer(&mut self, ev: Ev) -> Result<bool, io::Error> {
        if self.deviated {
            self.calls_after_deviation += 1;
        }
        let idx = self.events.len();
        self.events.push(ev);
        if let Some((k, a)) = self.deviate {
            if k == idx && !self.deviated {
                self.deviated = true;
                return match a {
                    Answer::Stop => Ok(false),
                    Answer::Fail => Err(io::Error::new(io::ErrorKind::Other, "sink-injected")),
                };
            }
        }
        Ok(true)
    }
}

impl Sink for &mut Rec {
    type Error = io::Error;
    fn matched(&mut self, _s: &Searcher, m: &SinkMatch<'_>) -> Result<bool, io::Error> {
        self.answer(Ev::Match { bytes: m.bytes().to_vec(), line: m.line_number(), off: m.absolute_byte_offset() })
    }
    fn context(&mut self, _s: &Searcher, c: &SinkContext<'_>) -> Result<bool, io::Error> {
        let kind = match c.kind() {
            SinkContextKind::Before => 0,
            SinkContextKind::After => 1,
            SinkContextKind::Other => 2,
        };
        self.answer(Ev::Ctx { kind, bytes: c.bytes().to_vec(), line: c.line_number(), off: c.absolute_byte_offset() })
    }
    fn context_break(&mut self, _s: &Searcher) -> Result<bool, io::Error> {
        self.answer(Ev::Break)
    }
    fn binary_data(&mut self, _s: &Searcher, off: u64) -> Result<bool, io::Error> {
        self.answer(Ev::Binary(off))
    }
    fn begin(&mut self, _s: &Searcher) -> Result<bool, io::Error> {
        self.answer(Ev::Begin)
    }
    fn finish(&mut self, _s: &Searcher, f: &SinkFinish) -> Result<(), io::Error> {
        if self.deviated {
            self.calls_after_deviation += 0; // finish after a stop is expected
        }
        self.finishes += 1;
        self.events.push(Ev::Finish { bytes: f.byte_count(), binary: f.binary_byte_offset() });
        Ok(())
    }
}

// ---------------------------------------------------------------------------
// Readers

#[derive(Clone, Copy, Debug, PartialEq, Eq)]
pub enum ReadFault {
    Other,
    Interrupted,
}

/// Returns `sizes[i]` bytes on the i-th read (then `default`), and fails the
/// read with index `fault.0` (once).
pub struct FragReader<'a> {
    pub data: &'a [u8],
    pub pos: usize,
    pub sizes: &'a [usize],
    pub default: usize,
    pub reads: usize,
    pub fault: Option<(usize, ReadFault)>,
    pub faulted: bool,
}

impl<'a> FragReader<'a> {
    pub fn new(data: &'a [u8], sizes: &'a [usize], default: usize) -> FragReader<'a> {
        FragReader { data, pos: 0, sizes, default, reads: 0, fault: None, faulted: false }
    }
}

impl<'a> io::Read for FragReader<'a> {
    fn read(&mut self, buf: &mut [u8]) -> io::Result<usize> {
        let idx = self.reads;
        self.reads += 1;
        if let Some((k, kind)) = self.fault {
            if k == idx && !self.faulted {
                self.faulted = true;
                return Err(match kind {
                    ReadFault::Other => io::Error::new(io::ErrorKind::Other, "read-injected"),
                    ReadFault::Interrupted => io::Error::new(io::ErrorKind::Interrupted, "interrupted-injected"),
                });
            }
        }
        let want = self.sizes.get(idx).copied().unwrap_or(self.default).max(1);
        let n = want.min(buf.len()).min(self.data.len() - self.pos);
        buf[..n].copy_from_slice(&self.data[self.pos..self.pos + n]);
        self.pos += n;
        Ok(n)
    }
}

// ---------------------------------------------------------------------------
// Toy matchers

#[derive(Clone, Copy, Debug, PartialEq, Eq, Hash, PartialOrd, Ord)]
pub enum LinePath {
    /// reports the searcher's line terminator: fast path, confirmed matches
    Fast,
    /// fast path through candidate lines (every non-terminator byte is a candidate)
    Candidate,
    /// reports nothing: slow path
    Slow,
}

/// Matches the byte `needle`.
#[derive(Clone, Debug)]
pub struct ByteMatcher {
    pub needle: u8,
    pub path: LinePath,
    pub term: LineTerminator,
}

impl Matcher for ByteMatcher {
    type Captures = NoCaptures;
    type Error = NoError;
    fn find_at(&self, haystack: &[u8], at: usize) -> Result<Option<Match>, NoError> {
        Ok(haystack[at..].iter().position(|&b| b == self.needle).map(|i| Match::new(at + i, at + i + 1)))
    }
    fn new_captures(&self) -> Result<NoCaptures, NoError> {
        Ok(NoCaptures::new())
    }
    fn line_terminator(&self) -> Option<LineTerminator> {
        match self.path {
            LinePath::Slow => None,
            _ => Some(self.term),
        }
    }
    fn non_matching_bytes(&self) -> Option<&ByteSet> {
        None
    }
    fn find_candidate_line(&self, haystack: &[u8]) -> Result<Option<LineMatchKind>, NoError> {
        match self.path {
            LinePath::Candidate => {
                let t = self.term.as_byte();
                Ok(haystack.iter().position(|&b| b != t).map(LineMatchKind::Candidate))
            }
            _ => Ok(self.shortest_match(haystack)?.map(LineMatchKind::Confirmed)),
        }
    }
}

// ---------------------------------------------------------------------------
// Configurations

#[derive(Clone, Copy, Debug, PartialEq, Eq, Hash, PartialOrd, Ord)]
pub enum Term {
    Lf,
    Crlf,
    Nul,
}

impl Term {
    pub fn lt(&self) -> LineTerminator {
        match self {
            Term::Lf => LineTerminator::byte(b'\n'),
            Term::Crlf => LineTerminator::crlf(),
            Term::Nul => LineTerminator::byte(0),
        }
    }
    pub fn byte(&self) -> u8 {
        match self {
            Term::Nul => 0,
            _ => b'\n',
        }
    }
}

#[derive(Clone, Copy, Debug, PartialEq, Eq, Hash, PartialOrd, Ord)]
pub struct Cfg {
    pub term: Term,
    pub invert: bool,
    pub after: usize,
    pub before: usize,
    pub passthru: bool,
    pub line_number: bool,
    pub stop_on_nonmatch: bool,
    pub multi_line: bool,
}

impl Cfg {
    pub fn plain(term: Term) -> Cfg {
        Cfg { term, invert: false, after: 0, before: 0, passthru: false, line_number: true, stop_on_nonmatch: false, multi_line: false }
    }
    pub fn builder(&self) -> SearcherBuilder {
        let mut b = SearcherBuilder::new();
        b.line_terminator(self.term.lt())
            .invert_match(self.invert)
            .after_context(self.after)
            .before_context(self.before)
            .passthru(self.passthru)
            .line_number(self.line_number)
            .stop_on_nonmatch(self.stop_on_nonmatch)
            .multi_line(self.multi_line)
            .binary_detection(BinaryDetection::none())
            .memory_map(MmapChoice::never())
            .bom_sniffing(false);
        b
    }
    pub fn show(&self) -> String {
        format!(
            "{:?}{}{} A{} B{}{}{}{}",
            self.term,
            if self.invert { " invert" } else { "" },
            if self.passthru { " passthru" } else { "" },
            self.after,
            self.before,
            if self.line_number { " n" } else { "" },
            if self.stop_on_nonmatch { " stop-on-nonmatch" } else { "" },
            if self.multi_line { " multiline-requested" } else { "" },
        )
    }
}

// ---------------------------------------------------------------------------
// The grep reference model (DESIGN.md A.1)

/// Split after each terminator byte; the last line may be unterminated.
pub fn split_lines(input: &[u8], term: u8) -> Vec<(usize, usize)> {
    let mut out = vec![];
    let mut s = 0;
    for (i, &b) in input.iter().enumerate() {
        if b == term {
            out.push((s, i + 1));
            s = i + 1;
        }
    }
    if s < input.len() {
        out.push((s, input.len()));
    }
    out
}

pub fn strip<'a>(line: &'a [u8], term: Term) -> &'a [u8] {
    let t = term.byte();
    let mut l = line;
    if l.last() == Some(&t) {
        l = &l[..l.len() - 1];
        if term == Term::Crlf && l.last() == Some(&b'\r') {
            l = &l[..l.len() - 1];
        }
    }
    l
}

/// `hit(i, stripped line)` says whether the pattern matches line i.
/// Returns the expected event list, Begin first, Finish last.
pub fn grep_model(input: &[u8], cfg: &Cfg, hit: &dyn Fn(usize, &[u8]) -> bool) -> Vec<Ev> {
    let t = cfg.term.byte();
    let lines = split_lines(input, t);
    let n = lines.len();
    let hits: Vec<bool> =
        (0..n).map(|i| hit(i, strip(&input[lines[i].0..lines[i].1], cfg.term)) != cfg.invert).collect();
    let (a, b) = if cfg.passthru { (0, 0) } else { (cfg.after, cfg.before) };
    let mut out = vec![Ev::Begin];
    let mut last_match: Option<usize> = None;
    let mut last_delivered: Option<usize> = None;
    let mut has_matched = false;
    let ln = |i: usize| if cfg.line_number { Some(i as u64 + 1) } else { None };
    for i in 0..n {
        let bytes = input[lines[i].0..lines[i].1].to_vec();
        let off = lines[i].0 as u64;
        let ev = if hits[i] {
            Some(Ev::Match { bytes, line: ln(i), off })
        } else if cfg.passthru {
            Some(Ev::Ctx { kind: 2, bytes, line: ln(i), off })
        } else if last_match.map_or(false, |m| i - m <= a) {
            Some(Ev::Ctx { kind: 1, bytes, line: ln(i), off })
        } else if !(cfg.stop_on_nonmatch && has_matched) && (i + 1..=i + b).any(|j| j < n && hits[j]) {
            Some(Ev::Ctx { kind: 0, bytes, line: ln(i), off })
        } else {
            None
        };
        if let Some(ev) = ev {
            if (a > 0 || b > 0) && last_delivered.map_or(false, |l| l + 1 < i) {
                out.push(Ev::Break);
            }
            out.push(ev);
            last_delivered = Some(i);
        }
        if hits[i] {
            has_matched = true;
            last_match = Some(i);
        }
        if cfg.stop_on_nonmatch && !hits[i] && has_matched {
            // the search stops here; byte count of an early stop is not
            // specified by the model (None marks it)
            out.push(Ev::Finish { bytes: u64::MAX, binary: None });
            return out;
        }
    }
    out.push(Ev::Finish { bytes: input.len() as u64, binary: None });
    out
}

/// Compare implementation events with the model's; a model Finish with
/// bytes == u64::MAX matches any byte count.
pub fn events_agree(imp: &[Ev], model: &[Ev]) -> bool {
    if imp.len() != model.len() {
        return false;
    }
    imp.iter().zip(model.iter()).all(|(a, b)| match (a, b) {
        (Ev::Finish { binary: ba, .. }, Ev::Finish { bytes: u64::MAX, binary: bb }) => ba == bb,
        _ => a == b,
    })
}
