//! C09 — printed lines and their coordinates are the input's own; JSON
//! output is lossless. E1: every input over a small byte alphabet x patterns
//! x every subset of the coordinate / framing flags, rendered in-process by
//! the standard and JSON printers and parsed back with the mode's grammar.

use serde_json::{json, Value};

use crate::{core::*, prn::*, srch::{split_lines, strip, Term}};

const PATTERNS_QUICK: &[&str] = &["a", "b", "é", "", "a*", "$", "^", "\\b", ".", "ab", "a|b", "[^a]", "\\xFF", "(?-u:\\xFF)",
    // byte-oriented matches that cut a multi-byte character of a line that is
    // valid UTF-8 as a whole
    "(?-u:a.)", "(?-u:\\xC3)", "(?-u:.b)",
];
const PATTERNS_MORE: &[&str] = &[
    "\\B", "a+", "b?", "^a", "a$", "^$", "\\w", "\\W", "\\s", "\\S", "..", ".*", "é|a", "a.b", "(a)(b)?", "x*", "[ab]+", "\\r", "a\\r?", "(?i)A", ".$", "^.",
];
const ML_PATTERNS: &[&str] = &["a\\nb", "a\\n", "\\na", "(?s:.)", "\\n", "a\\n?b?", "$\\n", "b\\n\\n"];

#[derive(Clone, Debug, PartialEq)]
struct Cfg9 {
    n: bool,
    b: bool,
    column: bool,
    vimgrep: bool,
    with_filename: bool,
    heading: bool,
    null: bool,
    ctx: bool,
    multiline: bool,
    crlf: bool,
}

impl Cfg9 {
    fn show(&self) -> String {
        let mut v = vec![];
        for (on, s) in [(self.n, "-n"), (self.b, "-b"), (self.column, "--column"), (self.vimgrep, "--vimgrep"), (self.with_filename, "-H"), (self.heading, "--heading"), (self.null, "--null"), (self.ctx, "-A1 -B1"), (self.multiline, "-U"), (self.crlf, "--crlf")] {
            if on {
                v.push(s);
            }
        }
        v.join(" ")
    }
}

#[derive(Debug)]
struct Record {
    is_match: bool,
    line: Option<u64>,
    col: Option<u64>,
    off: Option<u64>,
    text: Vec<u8>,
}

/// Parse the standard printer's output with the grammar implied by `c`.
fn parse_standard(out: &[u8], c: &Cfg9) -> Result<Vec<Record>, String> {
    let mut recs = vec![];
    let mut rest = out;
    let numbered = c.n || c.vimgrep;
    let has_col = c.column || c.vimgrep;
    if c.heading && c.with_filename && !rest.is_empty() {
        // heading: the path on its own line (terminated by \n or \0 with --null)
        let want: &[u8] = if c.null { b"f\0" } else if c.crlf { b"f\r\n" } else { b"f\n" };
        if !rest.starts_with(want) {
            return Err(format!("heading missing: {:?}", esc(&rest[..rest.len().min(10)])));
        }
        rest = &rest[want.len()..];
    }
    while !rest.is_empty() {
        if rest.starts_with(b"--\n") || rest.starts_with(b"--\r\n") {
            rest = &rest[rest.iter().position(|&b| b == b'\n').unwrap() + 1..];
            continue;
        }
        let mut p = 0;
        let mut sep: Option<u8> = None;
        if c.with_filename && !c.heading {
            if rest.get(p) != Some(&b'f') {
                return Err(format!("path missing at {:?}", esc(&rest[..rest.len().min(12)])));
            }
            p += 1;
            if c.null {
                if rest.get(p) != Some(&0) {
                    return Err("NUL after path missing".into());
                }
            } else {
                sep = rest.get(p).copied();
            }
            p += 1;
        }
        let mut num = |p: &mut usize, sep: &mut Option<u8>| -> Result<u64, String> {
            let d = rest[*p..].iter().take_while(|b| b.is_ascii_digit()).count();
            if d == 0 {
                return Err(format!("number missing at {:?}", esc(&rest[*p..rest.len().min(*p + 12)])));
            }
            let v: u64 = std::str::from_utf8(&rest[*p..*p + d]).unwrap().parse().map_err(|_| "bad number".to_string())?;
            *p += d;
            let s = rest.get(*p).copied().ok_or("separator missing")?;
            if s != b':' && s != b'-' {
                return Err(format!("bad separator {:?}", s as char));
            }
            if let Some(prev) = sep {
                if *prev != s {
                    return Err("mixed separators in one record".into());
                }
            }
            *sep = Some(s);
            *p += 1;
            Ok(v)
        };
        let line = if numbered { Some(num(&mut p, &mut sep)?) } else { None };
        // context lines carry no column
        let mut col = None;
        let is_ctx_so_far = sep == Some(b'-');
        if has_col && !is_ctx_so_far {
            // a context record has '-' after its first number; without any
            // earlier number we must peek
            if sep.is_some() || {
                // no earlier field: decide by trying
                true
            } {
                let save = (p, sep);
                match num(&mut p, &mut sep) {
                    Ok(v) => col = Some(v),
                    Err(_) => {
                        p = save.0;
                        sep = save.1;
                    }
                }
                if sep == Some(b'-') && col.is_some() {
                    // the number we read belongs to a context record's next
                    // field (byte offset); re-parse as offset
                    p = save.0;
                    sep = save.1;
                    col = None;
                }
            }
        }
        let off = if c.b { Some(num(&mut p, &mut sep)?) } else { None };
        let end = rest[p..].iter().position(|&b| b == b'\n').map(|i| p + i + 1).unwrap_or(rest.len());
        let text = rest[p..end].to_vec();
        let is_match = match sep {
            Some(b':') => true,
            Some(b'-') => false,
            // no field at all: a context line if match lines would carry a
            // column, otherwise it cannot be told apart
            _ => !has_col,
        };
        recs.push(Record { is_match, line, col, off, text });
        rest = &rest[end..];
    }
    Ok(recs)
}

fn b64decode(s: &str) -> Option<Vec<u8>> {
    const A: &[u8] = b"ABCDEFGHIJKLMNOPQRSTUVWXYZabcdefghijklmnopqrstuvwxyz0123456789+/";
    let mut out = vec![];
    let bytes: Vec<u8> = s.bytes().filter(|&b| b != b'=').collect();
    let mut acc = 0u32;
    let mut bits = 0;
    for b in bytes {
        let v = A.iter().position(|&x| x == b)? as u32;
        acc = (acc << 6) | v;
        bits += 6;
        if bits >= 8 {
            bits -= 8;
            out.push((acc >> bits) as u8);
            acc &= (1 << bits) - 1;
        }
    }
    Some(out)
}

/// Decode a JSON "text or bytes" object; also says whether base64 was used.
fn data(v: &Value) -> Option<(Vec<u8>, bool)> {
    if let Some(t) = v.get("text").and_then(|t| t.as_str()) {
        return Some((t.as_bytes().to_vec(), false));
    }
    let b = v.get("bytes")?.as_str()?;
    Some((b64decode(b)?, true))
}

#[derive(Default)]
struct Acc {
    runs: u64,
    records: u64,
    json_msgs: u64,
    b64: u64,
    known: u64,
    known_example: Option<String>,
    disc: Vec<(String, Value)>,
}

/// Number of alphabet symbols in an input (é is one symbol of two bytes).
fn symbols(input: &[u8]) -> usize {
    input.iter().filter(|&&b| b != 0xA9).count()
}

fn line_start_of(input: &[u8], n: u64) -> Option<(usize, usize)> {
    split_lines(input, b'\n').get(n as usize - 1).copied()
}

fn check_standard(input: &[u8], pat: &str, c: &Cfg9, re: &regex::bytes::Regex) -> Result<u64, String> {
    let f = PFlags { multiline: c.multiline, crlf: c.crlf, before: c.ctx as usize, after: c.ctx as usize, ..Default::default() };
    // (a pattern the builder rejects under these flags — a literal \r under
    // --crlf — has no output to judge)
    let Ok(m) = build_matcher(&[pat], &f) else { return Ok(0) };
    let so = StdOpts { line_number: c.n, byte_offset: c.b, column: c.column, vimgrep: c.vimgrep, heading: c.heading, with_filename: c.with_filename, null: c.null, ..Default::default() };
    let out = run_mode(input, &m, &f, &Mode::Standard(so), false);
    if let Some(e) = out.error {
        return Err(format!("search error: {}", e));
    }
    let recs = parse_standard(&out.out, c).map_err(|e| format!("output does not parse: {} (output {:?})", e, esc(&out.out)))?;
    let lines = split_lines(input, b'\n');
    let term = if c.crlf { Term::Crlf } else { Term::Lf };
    let true_ml = build_searcher(&f, true).multi_line_with_matcher(&m);
    let mut cursor = 0usize; // for the subsequence check when no coordinate is printed
    let mut block_hist: Vec<(usize, bool)> = vec![];
    let mut known = false;
    // (once the line of one record cannot be identified, the block structure
    // the later column checks rely on is unknown as well: no column is judged
    // from there on)
    let mut ambiguous = false;
    for r in recs.iter() {
        // locate the line this record claims to be
        let idx = if let Some(n) = r.line {
            if n == 0 || n as usize > lines.len() {
                return Err(format!("line number {} out of range", n));
            }
            n as usize - 1
        } else if let (Some(o), false) = (r.off, c.vimgrep) {
            match lines.iter().position(|&(s, _)| s as u64 == o) {
                Some(i) => i,
                None => return Err(format!("byte offset {} is not the start of a line", o)),
            }
        } else {
            // no coordinate: the printed lines must be a subsequence (when
            // several later lines have the printed text, which of them was
            // printed cannot be told: the column is then not judged)
            ambiguous |= (cursor..lines.len()).filter(|&i| shown(&input[lines[i].0..lines[i].1], c.crlf) == r.text).count() > 1;
            match (cursor..lines.len()).find(|&i| shown(&input[lines[i].0..lines[i].1], c.crlf) == r.text) {
                Some(i) => i,
                None => return Err(format!("printed text {:?} is not a (later) line of the input", esc(&r.text))),
            }
        };
        cursor = idx + if c.vimgrep { 0 } else { 1 };
        let (s, e) = lines[idx];
        if shown(&input[s..e], c.crlf) != r.text {
            return Err(format!("record text {:?} is not line {} of the input ({:?})", esc(&r.text), idx + 1, esc(&input[s..e])));
        }
        if let Some(n) = r.line {
            let true_n = 1 + input[..s].iter().filter(|&&b| b == b'\n').count() as u64;
            if n != true_n {
                return Err(format!("line number {} but the line is number {}", n, true_n));
            }
        }
        if let Some(o) = r.off {
            let ok = if c.vimgrep && r.is_match {
                // one record per match: the offset may be that of the match
                o as usize >= s && (o as usize) <= e
            } else {
                o as usize == s
            };
            if !ok {
                return Err(format!("byte offset {} but the line starts at {}", o, s));
            }
        }
        if let (Some(col), true, false) = (r.col, r.is_match, ambiguous) {
            // reference: start of a match in this line
            let body = strip(&input[s..e], term);
            let starts: Vec<usize> = if true_ml {
                re.find_iter(input)
                    .filter(|m| (m.start() >= s && m.start() < e) || (m.start() == e && e == input.len() && input.last() != Some(&b'\n')))
                    .map(|m| m.start() - s)
                    .collect()
            } else {
                re.find_iter(body).map(|m| m.start()).collect()
            };
            let ok = if c.vimgrep { starts.contains(&(col as usize - 1)) || (true_ml && col == 1) } else { starts.first() == Some(&(col as usize - 1)) || (true_ml && starts.is_empty() && col == 1) };
            if !ok {
                // Known finding `multiline-block-column`: in a multi-line
                // search every line of a block of adjacent matching lines
                // carries the column of the block's first match. The
                // counterfactual: the first match at or after the start of the
                // block this line belongs to, relative to that start.
                if true_ml {
                    let mut b0 = idx;
                    for back in block_hist.iter().rev() {
                        if back.1 && back.0 + 1 == b0 {
                            b0 = back.0;
                        } else {
                            break;
                        }
                    }
                    let bs = lines[b0].0;
                    let block_col = re.find_iter(input).find(|m| m.start() >= bs).map(|m| m.start() - bs + 1);
                    if b0 != idx && block_col == Some(col as usize) {
                        known = true;
                        block_hist.push((idx, r.is_match));
                        continue;
                    }
                }
                return Err(format!("column {} but the matches in line {} start at {:?}", col, idx + 1, starts));
            }
        }
        block_hist.push((idx, r.is_match));
    }
    if known {
        return Err("KNOWN multiline-block-column".into());
    }
    Ok(recs.len() as u64)
}

/// How a line is displayed: its own bytes; an unterminated last line gets a
/// terminator for display.
fn shown(line: &[u8], crlf: bool) -> Vec<u8> {
    let mut v = line.to_vec();
    if v.last() != Some(&b'\n') {
        if crlf {
            v.push(b'\r');
        }
        v.push(b'\n');
    }
    v
}

fn check_json(input: &[u8], pat: &str, f: &PFlags, re: &regex::bytes::Regex, acc: &mut Acc) -> Result<(), String> {
    let Ok(m) = build_matcher(&[pat], f) else { return Ok(()) };
    let out = run_mode(input, &m, f, &Mode::Json, false);
    if let Some(e) = out.error {
        return Err(format!("search error: {}", e));
    }
    let true_ml = build_searcher(f, true).multi_line_with_matcher(&m);
    let mut state = 0; // 0 nothing, 1 after begin, 2 after end
    let mut last_off: i64 = -1;
    let mut concat: Vec<u8> = vec![];
    for l in out.out.split(|&b| b == b'\n') {
        if l.is_empty() {
            continue;
        }
        acc.json_msgs += 1;
        let v: Value = serde_json::from_slice(l).map_err(|_| format!("message is not JSON: {:?}", esc(l)))?;
        match v["type"].as_str() {
            Some("begin") => {
                if state != 0 {
                    return Err("second begin".into());
                }
                state = 1;
                if data(&v["data"]["path"]).map(|d| d.0) != Some(b"f".to_vec()) {
                    return Err("begin: wrong path".into());
                }
            }
            Some("end") => {
                if state != 1 {
                    return Err("end without begin".into());
                }
                state = 2;
            }
            Some(t @ ("match" | "context")) => {
                if state != 1 {
                    return Err(format!("{} outside begin/end", t));
                }
                let (lines, was_b64) = data(&v["data"]["lines"]).ok_or("lines does not decode")?;
                if was_b64 {
                    acc.b64 += 1;
                }
                if was_b64 == std::str::from_utf8(&lines).is_ok() {
                    return Err(format!("base64 used iff not UTF-8 violated for {:?}", esc(&lines)));
                }
                let off = v["data"]["absolute_offset"].as_u64().ok_or("no absolute_offset")? as usize;
                if (off as i64) <= last_off {
                    return Err("messages not in input order".into());
                }
                last_off = off as i64;
                if input.get(off..off + lines.len()) != Some(&lines[..]) {
                    return Err(format!("lines {:?} are not the input at offset {}", esc(&lines), off));
                }
                if off != 0 && input[off - 1] != b'\n' {
                    return Err("absolute_offset is not the start of a line".into());
                }
                let ln = v["data"]["line_number"].as_u64().ok_or("no line_number")?;
                if ln != 1 + input[..off].iter().filter(|&&b| b == b'\n').count() as u64 {
                    return Err(format!("line_number {} wrong for offset {}", ln, off));
                }
                concat.extend(&lines);
                let mut prev_end = 0usize;
                let subs = v["data"]["submatches"].as_array().ok_or("no submatches")?;
                let mut got: Vec<(usize, usize)> = vec![];
                for sm in subs {
                    let (st, en) = (sm["start"].as_u64().ok_or("no start")? as usize, sm["end"].as_u64().ok_or("no end")? as usize);
                    let (text, b64) = data(&sm["match"]).ok_or("submatch does not decode")?;
                    if b64 == std::str::from_utf8(&text).is_ok() {
                        return Err("submatch: base64 iff not UTF-8 violated".into());
                    }
                    if st > en || en > lines.len() || lines[st..en] != text[..] {
                        return Err(format!("submatch {:?} is not lines[{}..{}]", esc(&text), st, en));
                    }
                    if st < prev_end {
                        return Err("submatches overlap or are out of order".into());
                    }
                    prev_end = en;
                    got.push((st, en));
                }
                if t == "match" && !f.invert {
                    // the submatches are the reference's matches in these lines
                    let want: Vec<(usize, usize)> = if true_ml {
                        re.find_iter(input)
                            .filter(|m| (m.start() >= off && m.start() < off + lines.len()) || (m.start() == off + lines.len() && m.start() == input.len() && input.last() != Some(&b'\n')))
                            .map(|m| (m.start() - off, m.end() - off))
                            .collect()
                    } else {
                        let body = strip(&lines, if f.crlf { Term::Crlf } else { Term::Lf });
                        re.find_iter(body).map(|m| (m.start(), m.end())).collect()
                    };
                    if got != want {
                        return Err(format!("submatches {:?} but the pattern's matches in {:?} are {:?}", got, esc(&lines), want));
                    }
                }
            }
            other => return Err(format!("unknown message type {:?}", other)),
        }
    }
    if state == 1 {
        return Err("begin without end".into());
    }
    if f.passthru && state == 2 && concat != input {
        return Err("with every line reported, the concatenation of the reported lines is not the input".into());
    }
    Ok(())
}

pub fn run(args: &Args) -> ! {
    if let Some(r) = &args.replay {
        replay(r);
    }
    let tier = args.tier;
    let mut ev = Evidence::new(args, "exploration");
    let mut verdict = Verdict::new("C09");
    let al: Vec<Vec<u8>> = vec![b"a".to_vec(), b"b".to_vec(), "é".as_bytes().to_vec(), vec![0xFF], b"\r".to_vec(), b"\n".to_vec()];
    let maxlen = tier.pick(4, 5);
    let n = seq_count(al.len(), maxlen);
    let mut idx = vec![];
    let mut inputs: Vec<Vec<u8>> = (0..n)
        .map(|i| {
            seq_decode(al.len(), i, &mut idx);
            idx.iter().flat_map(|&k| al[k].clone()).collect()
        })
        .collect();
    // one family of very long lines
    for k in [10_000usize, 70_000] {
        let mut v = vec![b'b'; k];
        v[k / 2] = b'a';
        v.push(b'\n');
        v.extend(b"a\n");
        inputs.push(v.clone());
        v.pop();
        inputs.push(v);
    }
    let mut pats: Vec<&str> = PATTERNS_QUICK.to_vec();
    if tier == Tier::Thorough {
        pats.extend(PATTERNS_MORE);
    }
    let mut cfgs = vec![];
    for bits in 0..(1u32 << 7) {
        let (nn, b, column, vimgrep, h, heading, null) = (bits & 1 != 0, bits & 2 != 0, bits & 4 != 0, bits & 8 != 0, bits & 16 != 0, bits & 32 != 0, bits & 64 != 0);
        if (heading || null) && !h {
            continue;
        }
        for ctx in [false, true] {
            for (ml, crlf) in [(false, false), (true, false), (false, true)] {
                if vimgrep && ctx {
                    continue;
                }
                cfgs.push(Cfg9 { n: nn, b, column, vimgrep, with_filename: h, heading, null, ctx, multiline: ml, crlf });
            }
        }
    }
    let work: Vec<(usize, usize)> = (0..pats.len() + ML_PATTERNS.len()).flat_map(|p| (0..cfgs.len()).map(move |c| (p, c))).collect();
    let mut total = Acc::default();
    par_fold(
        work.len(),
        4,
        Acc::default,
        |acc, wi| {
            let (pi, ci) = work[wi];
            let c = &cfgs[ci];
            let pat = if pi < pats.len() { pats[pi] } else { ML_PATTERNS[pi - pats.len()] };
            if pi >= pats.len() && !c.multiline {
                return;
            }
            let Ok(re) = regex::bytes::RegexBuilder::new(pat).multi_line(true).crlf(c.crlf).build() else { return };
            let mut per = 0;
            for input in inputs.iter() {
                // thorough tier: the additional patterns see the five-symbol
                // inputs under every 4th flag set only (every shorter input
                // under all of them)
                if tier == Tier::Thorough && pi >= PATTERNS_QUICK.len() && pi < pats.len() && symbols(input) > 4 && input.len() < 1000 && ci % 4 != 0 {
                    continue;
                }
                // quick tier: the longest inputs only for every 4th flag set
                if tier == Tier::Quick && input.len() > 3 && input.len() < 1000 && ci % 4 != 0 {
                    continue;
                }
                // under --crlf the matcher is documented never to match \r;
                // a bare CR inside a line has no reference for match positions
                if c.crlf && input.iter().enumerate().any(|(i, &b)| b == b'\r' && input.get(i + 1) != Some(&b'\n')) {
                    continue;
                }
                // the long-line family only with a pattern that has a couple
                // of matches per line (--vimgrep prints the line per match)
                if input.len() > 1000 && (pat != "a" || ci % 3 != 0) {
                    continue;
                }
                acc.runs += 1;
                match check_standard(input, pat, c, &re) {
                    Ok(nrec) => acc.records += nrec,
                    Err(why) => {
                        if why.starts_with("KNOWN") {
                            acc.known += 1;
                            if acc.known_example.is_none() {
                                acc.known_example = Some(format!("{} | {} | {}", c.show(), pat, esc(input)));
                            }
                            continue;
                        }
                        if why.starts_with("search error") || per >= 2 || acc.disc.len() >= 200 {
                            continue;
                        }
                        per += 1;
                        acc.disc.push((
                            format!("standard | {} | {} | {}", c.show(), pat, if input.len() < 40 { esc(input) } else { format!("{} bytes", input.len()) }),
                            json!({"kind":"standard","flags":c.show(),"pattern":pat,"input": if input.len() < 40 { esc(input) } else { format!("long line family {}", input.len()) },"why":why}),
                        ));
                    }
                }
            }
            // JSON: once per (pattern, search flags)
            if !(c.n || c.b || c.column || c.vimgrep || c.with_filename) {
                for passthru in [false, true] {
                    let f = PFlags { multiline: c.multiline, crlf: c.crlf, before: c.ctx as usize, after: c.ctx as usize, passthru, ..Default::default() };
                    for input in inputs.iter() {
                        if input.len() > 1000 && pat != "a" {
                            continue;
                        }
                        if c.crlf && input.iter().enumerate().any(|(i, &b)| b == b'\r' && input.get(i + 1) != Some(&b'\n')) {
                            continue;
                        }
                        acc.runs += 1;
                        if let Err(why) = check_json(input, pat, &f, &re, acc) {
                            if why.starts_with("search error") || per >= 4 || acc.disc.len() >= 200 {
                                continue;
                            }
                            per += 1;
                            acc.disc.push((
                                format!("json | {} | {} | {}", f.show(), pat, if input.len() < 40 { esc(input) } else { format!("{} bytes", input.len()) }),
                                json!({"kind":"json","flags":f.show(),"pattern":pat,"input": if input.len() < 40 { esc(input) } else { format!("long line family {}", input.len()) },"why":why}),
                            ));
                        }
                    }
                }
            }
        },
        |a| {
            total.runs += a.runs;
            total.records += a.records;
            total.json_msgs += a.json_msgs;
            total.b64 += a.b64;
            total.known += a.known;
            if total.known_example.is_none() {
                total.known_example = a.known_example;
            }
            total.disc.extend(a.disc);
        },
    );
    // ---- reuse layer: one Searcher and one printer searching many files in
    //      a row (as a worker thread does), through search_path without mmap;
    //      every file's output must equal the output of a fresh search ---------
    {
        use grep_printer::StandardBuilder;
        let scratch = Scratch::new("c09");
        let small: Vec<&Vec<u8>> = inputs.iter().filter(|i| i.len() <= 3).collect();
        let mut order: Vec<usize> = (0..small.len()).collect();
        // descending, ascending and interleaved sizes
        let mut orders = vec![order.clone()];
        order.reverse();
        orders.push(order.clone());
        let inter: Vec<usize> = (0..small.len()).map(|i| if i % 2 == 0 { i / 2 } else { small.len() - 1 - i / 2 }).collect();
        orders.push(inter);
        for (fi, c) in small.iter().enumerate() {
            std::fs::write(scratch.path.join(format!("f{}", fi)), c).unwrap_or_else(|_| machinery_error("scratch"));
        }
        let mut reuse_runs = 0u64;
        for (pat, multiline) in [("a", false), ("a\\n?b?", true), ("(?s:.)", true), ("\\n", true)] {
            let f = PFlags { multiline, ..Default::default() };
            let Ok(m) = build_matcher(&[pat], &f) else { continue };
            for ord in orders.iter() {
                let mut searcher = build_searcher(&f, true);
                let mut printer = StandardBuilder::new().byte_offset(true).build_no_color(vec![]);
                for &fi in ord.iter() {
                    let before = printer.get_mut().get_ref().len();
                    let path = scratch.path.join(format!("f{}", fi));
                    let res = searcher.search_path(&m, &path, printer.sink(&m));
                    let got = printer.get_mut().get_ref()[before..].to_vec();
                    let fresh = run_mode(small[fi], &m, &f, &Mode::Standard(StdOpts { line_number: true, byte_offset: true, ..Default::default() }), false);
                    reuse_runs += 1;
                    if res.is_err() || got != fresh.out {
                        verdict.discrepancy(
                            None,
                            &format!("reuse | {} | {}", pat, esc(small[fi])),
                            json!({"kind":"reuse","pattern":pat,"input":esc(small[fi]),"with_reused_searcher":esc(&got),"with_fresh_searcher":esc(&fresh.out)}),
                        );
                        break;
                    }
                }
            }
        }
        ev.set("searcher_reuse_runs", reuse_runs);
        drop(scratch);
    }
    for (k, v) in total.disc.iter() {
        verdict.discrepancy(None, k, v.clone());
    }
    if total.known > 0 {
        let ex = total.known_example.clone().unwrap_or_default();
        verdict.discrepancy(Some("multiline-block-column"), &ex, json!({"kind":"standard-known","example":ex}));
        if let Some(e) = verdict.known_seen.get_mut("multiline-block-column") {
            e.0 = total.known as usize;
        }
    }
    if total.records == 0 || total.json_msgs == 0 || total.b64 == 0 {
        machinery_error("C09: a mandatory coverage counter is zero");
    }
    ev.set("evaluations", total.runs);
    ev.set("distinct_nontrivial", total.records + total.json_msgs);
    ev.set("exhaustive", true);
    ev.set("inputs", inputs.len());
    ev.set("flag_configurations", cfgs.len());
    ev.set("standard_records_parsed_and_checked", total.records);
    ev.set("json_messages_checked", total.json_msgs);
    ev.set("json_lines_sent_as_base64", total.b64);
    ev.set(
        "rule",
        format!(
            "inputs: every byte string over {{a,b,é,0xFF,\\r,\\n}} up to length {} plus a family of 10 KiB / 70 KiB lines; {} patterns (+ {} that can match \\n under -U); standard printer under every subset of -n -b --column --vimgrep -H --heading --null x context (-A1 -B1) x {{line, -U, --crlf}}: each output record is parsed with the mode's grammar and its text must be a line of the input at the printed line number / byte offset, the column must be the start of the first (vimgrep: some) reference match in that line; JSON printer (with and without context and passthru): begin, ordered match/context messages, end; lines and submatches decode (text or base64, base64 iff not UTF-8) to the input at absolute_offset and to lines[start..end]; submatches equal the reference regex's matches; with every line reported the concatenation equals the input. Reuse layer: one Searcher + printer searching 259 files in a row through search_path (three size orders, four patterns incl. multi-line): each file's output equals a fresh search's.",
            maxlen, pats.len(), ML_PATTERNS.len()
        ),
    );
    ev.set("samples", json!([{"flags": "-n -b --column -H", "pattern": "a", "input": "b\\xFF\\nba"}, {"json": {"pattern": "é", "input": "\\xFFé\\n"}}]));
    ev.assume("-o, -r, --trim and --max-columns are outside this property by its statement");
    verdict.finish(ev)
}

fn replay(path: &str) -> ! {
    let text = std::fs::read_to_string(path).unwrap_or_else(|_| machinery_error("cannot read replay"));
    let v: Value = serde_json::from_str(&text).unwrap_or_else(|_| machinery_error("bad replay"));
    println!("{} | flags [{}] | pattern {} | input {} | {}", v["kind"], v["flags"], v["pattern"], v["input"], v["why"]);
    std::process::exit(2)
}
