//! C06 — the single-threaded and the parallel walker report the same
//! entries, once each, and exactly the reachable ones. E1: every tree with up
//! to 2 (quick: plus a sample of 3) / 3 nodes over nine node kinds x every
//! traversal configuration; three-way oracle: `build()` vs
//! `build_parallel()` vs an independent recursive lister.

use std::{
    collections::{BTreeMap, BTreeSet},
    path::{Path, PathBuf},
    sync::{Arc, Mutex},
};

use ignore::{WalkBuilder, WalkState};
use serde_json::{json, Value};

use crate::core::*;

#[derive(Clone, Copy, Debug, PartialEq, Eq, Hash, PartialOrd, Ord)]
enum Kind {
    Dir,
    File,
    BigFile,
    HiddenFile,
    LinkFile,
    LinkDir,
    LinkAncestor,
    Dangling,
    LinkOtherDev,
}

const KINDS: &[Kind] = &[
    Kind::Dir, Kind::File, Kind::BigFile, Kind::HiddenFile, Kind::LinkFile, Kind::LinkDir, Kind::LinkAncestor, Kind::Dangling, Kind::LinkOtherDev,
];

#[derive(Clone, Debug, PartialEq, Eq, Hash, PartialOrd, Ord)]
struct Node {
    kind: Kind,
    /// index of the parent node (None: directly below the root)
    parent: Option<usize>,
}

type Tree = Vec<Node>;

fn all_trees(n: usize) -> Vec<Tree> {
    all_trees_over(n, KINDS)
}

fn all_trees_over(n: usize, kinds: &[Kind]) -> Vec<Tree> {
    // parent indices non-decreasing (canonical up to sibling order)
    fn rec(n: usize, kinds: &[Kind], cur: &mut Tree, out: &mut Vec<Tree>) {
        if cur.len() == n {
            out.push(cur.clone());
            return;
        }
        let min_parent: i64 = cur.last().map_or(-1, |l| l.parent.map_or(-1, |p| p as i64));
        let mut parents: Vec<Option<usize>> = vec![];
        if min_parent < 0 {
            parents.push(None);
        }
        for (i, nd) in cur.iter().enumerate() {
            if nd.kind == Kind::Dir && (i as i64) >= min_parent {
                parents.push(Some(i));
            }
        }
        for p in parents {
            for &k in kinds {
                cur.push(Node { kind: k, parent: p });
                rec(n, kinds, cur, out);
                cur.pop();
            }
        }
    }
    let mut out = vec![];
    rec(n, kinds, &mut vec![], &mut out);
    out
}

fn node_name(i: usize, k: Kind) -> String {
    match k {
        Kind::HiddenFile => format!(".n{}", i),
        _ => format!("n{}", i),
    }
}

struct Fixture {
    _scratch: Scratch,
    root: PathBuf,
    other: PathBuf,
}

fn rel_path(t: &Tree, i: usize) -> String {
    let mut parts = vec![node_name(i, t[i].kind)];
    let mut p = t[i].parent;
    while let Some(pi) = p {
        parts.push(node_name(pi, t[pi].kind));
        p = t[pi].parent;
    }
    parts.reverse();
    parts.join("/")
}

fn other_device_dir() -> PathBuf {
    // scratch trees live on /dev/shm (tmpfs); /tmp is on another device
    PathBuf::from(format!("/tmp/verif-c06-otherdev-{}", std::process::id()))
}

impl Fixture {
    fn new(t: &Tree) -> Fixture {
        let scratch = Scratch::new("c06");
        let root = scratch.path.join("root");
        std::fs::create_dir_all(&root).unwrap_or_else(|_| machinery_error("scratch"));
        let other = other_device_dir();
        for (i, nd) in t.iter().enumerate() {
            let p = root.join(rel_path(t, i));
            let r = match nd.kind {
                Kind::Dir => std::fs::create_dir(&p),
                Kind::File | Kind::HiddenFile => std::fs::write(&p, b"x"),
                Kind::BigFile => std::fs::write(&p, b"0123456789"),
                Kind::LinkFile => {
                    // the first regular file of the tree, else a file outside
                    let target = t.iter().enumerate().find(|(_, n)| matches!(n.kind, Kind::File | Kind::BigFile)).map(|(j, _)| root.join(rel_path(t, j))).unwrap_or(scratch.path.join("outside-file"));
                    std::os::unix::fs::symlink(target, &p)
                }
                Kind::LinkDir => {
                    // a directory that is not an ancestor: outside the tree
                    std::os::unix::fs::symlink(scratch.path.join("outside-dir"), &p)
                }
                Kind::LinkAncestor => {
                    let target = match nd.parent {
                        Some(pi) => root.join(rel_path(t, pi)),
                        None => root.clone(),
                    };
                    std::os::unix::fs::symlink(target, &p)
                }
                Kind::Dangling => std::os::unix::fs::symlink(scratch.path.join("nonexistent"), &p),
                Kind::LinkOtherDev => std::os::unix::fs::symlink(other.join("xd"), &p),
            };
            if r.is_err() {
                machinery_error("cannot build the scratch tree");
            }
        }
        // the ignore rule of the configurations (read only when enabled)
        std::fs::write(root.join(".ignore"), b"n0\n").unwrap();
        std::fs::write(scratch.path.join("outside-file"), b"x").unwrap();
        std::fs::create_dir_all(scratch.path.join("outside-dir/sub")).unwrap();
        std::fs::write(scratch.path.join("outside-dir/of"), b"x").unwrap();
        std::fs::write(scratch.path.join("outside-dir/sub/og"), b"0123456789").unwrap();
        Fixture { _scratch: scratch, root, other }
    }
}

#[derive(Clone, Copy, Debug, PartialEq, Eq, Hash, PartialOrd, Ord)]
enum Filt {
    None,
    RejectN1,
    RejectDirs,
}

#[derive(Clone, Copy, Debug, PartialEq, Eq, Hash, PartialOrd, Ord)]
struct Conf {
    max_depth: Option<usize>,
    max_filesize: Option<u64>,
    follow: bool,
    same_fs: bool,
    filter: Filt,
    hidden: bool,
    ignore_n0: bool,
    threads: usize,
}

fn confs(tier: Tier) -> Vec<Conf> {
    let mut out = vec![];
    let mut base_configs = 0usize;
    for max_depth in [None, Some(0), Some(1), Some(2)] {
        for max_filesize in [None, Some(3u64)] {
            for follow in [false, true] {
                for same_fs in [false, true] {
                    for filter in [Filt::None, Filt::RejectN1, Filt::RejectDirs] {
                        for hidden in [true, false] {
                            for ignore_n0 in [false, true] {
                                // (thorough: 2 and 4 threads everywhere, 16 threads for
                                // every 4th configuration — a 16-thread walk of a
                                // three-node tree is mostly thread start-up)
                                let mut threads: Vec<usize> = tier.pick(vec![2], vec![2, 4]);
                                base_configs += 1;
                                if tier == Tier::Thorough && base_configs % 4 == 0 {
                                    threads.push(16);
                                }
                                for th in threads {
                                    out.push(Conf { max_depth, max_filesize, follow, same_fs, filter, hidden, ignore_n0, threads: th });
                                }
                            }
                        }
                    }
                }
            }
        }
    }
    out
}

fn builder(fx: &Fixture, c: &Conf, roots: &[PathBuf]) -> WalkBuilder {
    let mut b = WalkBuilder::new(&roots[0]);
    for r in roots.iter().skip(1) {
        b.add(r);
    }
    b.standard_filters(false)
        .hidden(c.hidden)
        .ignore(c.ignore_n0)
        .parents(false)
        .max_depth(c.max_depth)
        .max_filesize(c.max_filesize)
        .follow_links(c.follow)
        .same_file_system(c.same_fs)
        .threads(c.threads);
    match c.filter {
        Filt::None => {}
        Filt::RejectN1 => {
            b.filter_entry(|e| e.file_name() != "n1");
        }
        Filt::RejectDirs => {
            b.filter_entry(|e| !e.file_type().map_or(false, |t| t.is_dir()));
        }
    }
    let _ = fx;
    b
}

#[derive(Debug, Default, PartialEq, Eq, Clone)]
struct Listing {
    /// path -> how many times yielded
    paths: BTreeMap<String, usize>,
    errors: usize,
}

fn rel(fx: &Fixture, p: &Path) -> String {
    p.strip_prefix(fx.root.parent().unwrap()).unwrap_or(p).to_string_lossy().to_string()
}

fn serial(fx: &Fixture, c: &Conf, roots: &[PathBuf]) -> Listing {
    let mut l = Listing::default();
    for e in builder(fx, c, roots).build() {
        match e {
            Ok(e) => *l.paths.entry(rel(fx, e.path())).or_insert(0) += 1,
            Err(_) => l.errors += 1,
        }
    }
    l
}

fn parallel(fx: &Fixture, c: &Conf, roots: &[PathBuf]) -> Listing {
    let l = Arc::new(Mutex::new(Listing::default()));
    let base = fx.root.parent().unwrap().to_path_buf();
    builder(fx, c, roots).build_parallel().run(|| {
        let l = l.clone();
        let base = base.clone();
        Box::new(move |e| {
            let mut l = l.lock().unwrap();
            match e {
                Ok(e) => {
                    let r = e.path().strip_prefix(&base).unwrap_or(e.path()).to_string_lossy().to_string();
                    *l.paths.entry(r).or_insert(0) += 1;
                }
                Err(_) => l.errors += 1,
            }
            WalkState::Continue
        })
    });
    let r = l.lock().unwrap().clone();
    r
}

/// The independent lister, written from the documentation.
fn reference(fx: &Fixture, c: &Conf, roots: &[PathBuf]) -> Listing {
    use std::os::unix::fs::MetadataExt;
    let mut l = Listing::default();
    fn walk(fx: &Fixture, c: &Conf, p: &Path, depth: usize, root_dev: u64, ancestors: &mut Vec<(u64, u64)>, l: &mut Listing) {
        // p is a directory to list
        let Ok(rd) = std::fs::read_dir(p) else {
            l.errors += 1;
            return;
        };
        for ent in rd.flatten() {
            let path = ent.path();
            let name = ent.file_name().to_string_lossy().to_string();
            let Ok(lmd) = std::fs::symlink_metadata(&path) else { continue };
            let is_link = lmd.file_type().is_symlink();
            // the entry as the walker sees it: followed if follow_links
            let md = if is_link && c.follow {
                match std::fs::metadata(&path) {
                    Ok(m) => m,
                    Err(_) => {
                        l.errors += 1; // dangling link under follow_links
                        continue;
                    }
                }
            } else {
                lmd.clone()
            };
            let is_dir = md.is_dir();
            if is_dir && is_link && c.follow {
                // link cycle: the target is one of the ancestors
                if ancestors.contains(&(md.dev(), md.ino())) {
                    l.errors += 1;
                    continue;
                }
            }
            // filters: hidden, ignore rule, size, caller's predicate
            if c.hidden && name.starts_with('.') {
                continue;
            }
            if c.ignore_n0 && name == "n0" {
                continue;
            }
            if let (Some(max), false) = (c.max_filesize, is_dir) {
                if md.len() > max {
                    continue;
                }
            }
            match c.filter {
                Filt::None => {}
                Filt::RejectN1 => {
                    if name == "n1" {
                        continue;
                    }
                }
                Filt::RejectDirs => {
                    if is_dir {
                        continue;
                    }
                }
            }
            *l.paths.entry(rel(fx, &path)).or_insert(0) += 1;
            if is_dir {
                if c.max_depth.map_or(false, |m| depth >= m) {
                    continue;
                }
                if c.same_fs && md.dev() != root_dev {
                    continue;
                }
                ancestors.push((md.dev(), md.ino()));
                walk(fx, c, &path, depth + 1, root_dev, ancestors, l);
                ancestors.pop();
            }
        }
    }
    for r in roots {
        let Ok(md) = std::fs::metadata(r) else {
            l.errors += 1;
            continue;
        };
        *l.paths.entry(rel(fx, r)).or_insert(0) += 1;
        if md.is_dir() && c.max_depth != Some(0) {
            let mut anc = vec![(md.dev(), md.ino())];
            walk(fx, c, r, 1, md.dev(), &mut anc, &mut l);
        }
    }
    l
}

#[derive(Default)]
struct Acc {
    walks: u64,
    nontrivial: u64,
    with_error: u64,
    with_cycle: u64,
    disc: Vec<(Option<&'static str>, String, Value)>,
}

fn tree_text(t: &Tree) -> String {
    t.iter().enumerate().map(|(i, n)| format!("{}:{:?}@{}", i, n.kind, n.parent.map_or("root".to_string(), |p| p.to_string()))).collect::<Vec<_>>().join(" ")
}

// ---------------------------------------------------------------------------
// Layer 2: deeper trees with an ignore file in ONE directory of the tree.
// The rule names one node; it must hide that name inside the subtree of the
// directory holding the file and nowhere else — in both walkers, whatever
// the order in which the walker leaves and enters directories.

struct Nested {
    walks: u64,
    trees: usize,
    cases: u64,
    cases_where_the_rule_hides_something: u64,
    cases_with_the_named_entry_outside_the_subtree: u64,
    disc: Vec<(String, Value)>,
}

fn nested_ignore_layer(tier: Tier) -> Nested {
    let maxn = tier.pick(4, 5);
    let mut trees: Vec<Tree> = vec![];
    for n in 2..=maxn {
        trees.extend(all_trees_over(n, &[Kind::Dir, Kind::File]).into_iter().filter(|t| t.iter().any(|n| n.kind == Kind::Dir)));
    }
    // (tree, holder: None = root or Some(dir node), named node)
    let mut work: Vec<(usize, Option<usize>, usize)> = vec![];
    for (ti, t) in trees.iter().enumerate() {
        let mut holders: Vec<Option<usize>> = vec![None];
        holders.extend(t.iter().enumerate().filter(|(_, n)| n.kind == Kind::Dir).map(|(i, _)| Some(i)));
        for h in holders {
            for named in 0..t.len() {
                if Some(named) == h {
                    continue;
                }
                work.push((ti, h, named));
            }
        }
    }
    let out = Mutex::new(Nested { walks: 0, trees: trees.len(), cases: 0, cases_where_the_rule_hides_something: 0, cases_with_the_named_entry_outside_the_subtree: 0, disc: vec![] });
    let next = std::sync::atomic::AtomicUsize::new(0);
    std::thread::scope(|s| {
        for _ in 0..ncpu() * 4 {
            s.spawn(|| {
                let mut local = Nested { walks: 0, trees: 0, cases: 0, cases_where_the_rule_hides_something: 0, cases_with_the_named_entry_outside_the_subtree: 0, disc: vec![] };
                loop {
                    let i = next.fetch_add(1, std::sync::atomic::Ordering::Relaxed);
                    if i >= work.len() {
                        break;
                    }
                    let (ti, holder, named) = work[i];
                    let t = &trees[ti];
                    let scratch = Scratch::new("c06n");
                    let root = scratch.path.join("root");
                    std::fs::create_dir_all(&root).unwrap_or_else(|_| machinery_error("scratch"));
                    for (k, nd) in t.iter().enumerate() {
                        let p = root.join(rel_path(t, k));
                        let r = if nd.kind == Kind::Dir { std::fs::create_dir(&p) } else { std::fs::write(&p, b"x") };
                        if r.is_err() {
                            machinery_error("cannot build the scratch tree");
                        }
                    }
                    let holder_dir = match holder {
                        None => root.clone(),
                        Some(h) => root.join(rel_path(t, h)),
                    };
                    std::fs::write(holder_dir.join(".ignore"), format!("{}\n", node_name(named, t[named].kind))).unwrap();
                    // reference: node k is hidden iff it or one of its ancestors
                    // is the named node AND that one lies strictly inside the
                    // holder's subtree
                    let inside = |k: usize| -> bool {
                        match holder {
                            None => true,
                            Some(h) => {
                                let mut p = t[k].parent;
                                while let Some(pi) = p {
                                    if pi == h {
                                        return true;
                                    }
                                    p = t[pi].parent;
                                }
                                false
                            }
                        }
                    };
                    let name_of = |k: usize| node_name(k, t[k].kind);
                    let hidden = |k: usize| -> bool {
                        let mut cur = Some(k);
                        while let Some(c) = cur {
                            if name_of(c) == name_of(named) && inside(c) {
                                return true;
                            }
                            cur = t[c].parent;
                        }
                        false
                    };
                    let mut want: BTreeMap<String, usize> = BTreeMap::new();
                    want.insert("root".into(), 1);
                    for k in 0..t.len() {
                        if !hidden(k) {
                            want.insert(format!("root/{}", rel_path(t, k)), 1);
                        }
                    }
                    local.cases += 1;
                    if want.len() < t.len() + 1 {
                        local.cases_where_the_rule_hides_something += 1;
                    }
                    if !inside(named) {
                        local.cases_with_the_named_entry_outside_the_subtree += 1;
                    }
                    let mk = || {
                        let mut b = WalkBuilder::new(&root);
                        b.standard_filters(false).hidden(true).ignore(true).parents(false).threads(2);
                        b
                    };
                    let base = scratch.path.clone();
                    let relp = |p: &Path| p.strip_prefix(&base).unwrap_or(p).to_string_lossy().to_string();
                    let mut a: BTreeMap<String, usize> = BTreeMap::new();
                    let mut a_err = 0;
                    for e in mk().build() {
                        match e {
                            Ok(e) => *a.entry(relp(e.path())).or_insert(0) += 1,
                            Err(_) => a_err += 1,
                        }
                    }
                    let bl = Arc::new(Mutex::new((BTreeMap::<String, usize>::new(), 0usize)));
                    mk().build_parallel().run(|| {
                        let bl = bl.clone();
                        let base = base.clone();
                        Box::new(move |e| {
                            let mut g = bl.lock().unwrap();
                            match e {
                                Ok(e) => {
                                    let r = e.path().strip_prefix(&base).unwrap_or(e.path()).to_string_lossy().to_string();
                                    *g.0.entry(r).or_insert(0) += 1;
                                }
                                Err(_) => g.1 += 1,
                            }
                            WalkState::Continue
                        })
                    });
                    let (b, b_err) = bl.lock().unwrap().clone();
                    local.walks += 2;
                    let mut why = vec![];
                    if a != want {
                        why.push("the single-threaded walker differs from the reference");
                    }
                    if b != want {
                        why.push("the parallel walker differs from the reference");
                    }
                    if a_err + b_err > 0 {
                        why.push("unexpected error entries");
                    }
                    if !why.is_empty() && local.disc.len() < 10 {
                        local.disc.push((
                            format!("nested-ignore | {} | .ignore in {} names {}", tree_text(t), holder.map_or("root".to_string(), |h| rel_path(t, h)), name_of(named)),
                            json!({"kind":"nested-ignore","tree":tree_text(t),"ignore_file_in":holder.map_or("root".to_string(), |h| rel_path(t, h)),"rule":name_of(named),"why":why,
                                   "serial":a.keys().collect::<Vec<_>>(),"parallel":b.keys().collect::<Vec<_>>(),"reference":want.keys().collect::<Vec<_>>()}),
                        ));
                    }
                }
                let mut o = out.lock().unwrap();
                o.walks += local.walks;
                o.cases += local.cases;
                o.cases_where_the_rule_hides_something += local.cases_where_the_rule_hides_something;
                o.cases_with_the_named_entry_outside_the_subtree += local.cases_with_the_named_entry_outside_the_subtree;
                o.disc.extend(local.disc);
            });
        }
    });
    out.into_inner().unwrap()
}

/// Trees with mode-000 directories at depth 1 and 2, listed with
/// `rg --files [--max-depth d]` at -j1 and -j2 as uid 65534. Reference: a
/// directory is opened exactly if its depth is below the limit, so an
/// unreadable directory AT the limit is neither listed into nor an error;
/// both walkers must print the same files, the same number of diagnostics
/// and exit with the same status.
fn unreadable_layer() -> (u64, Vec<(String, Value)>) {
    use std::process::Command;
    let rg = build_rg();
    let scratch = Scratch::new("c06u");
    let t = scratch.path.join("t");
    // (path, depth of the entry, readable directory?)
    for d in ["d/e", "k/u/w", "k/r"] {
        std::fs::create_dir_all(t.join(d)).unwrap_or_else(|_| machinery_error("scratch"));
    }
    for f in ["f", "d/g", "d/e/x", "k/v", "k/u/h", "k/u/w/y", "k/r/z"] {
        std::fs::write(t.join(f), "x\n").unwrap_or_else(|_| machinery_error("scratch"));
    }
    let _ = Command::new("chmod").arg("755").arg(&scratch.path).arg(&t).status();
    let _ = Command::new("chmod").arg("000").arg(t.join("d")).arg(t.join("k/u")).status();
    // files with their depth, and the unreadable directories with theirs
    let files: [(&str, usize, bool); 7] =
        [("t/f", 1, true), ("t/d/g", 2, false), ("t/d/e/x", 3, false), ("t/k/v", 2, true), ("t/k/u/h", 3, false), ("t/k/u/w/y", 4, false), ("t/k/r/z", 3, true)];
    let locked: [(&str, usize); 2] = [("t/d", 1), ("t/k/u", 2)];
    let mut runs = 0;
    let mut disc = vec![];
    for depth in [None, Some(0usize), Some(1), Some(2), Some(3), Some(4)] {
        let want_files: BTreeSet<String> = files.iter().filter(|(_, d, ok)| *ok && depth.map_or(true, |m| *d <= m)).map(|(p, _, _)| p.to_string()).collect();
        let want_errors = locked.iter().filter(|(_, d)| depth.map_or(true, |m| *d < m)).count();
        for threads in ["-j1", "-j2", "-j3"] {
            let mut cmd = Command::new("setpriv");
            cmd.args(["--reuid=65534", "--regid=65534", "--clear-groups"]).arg(&rg).args(["--no-config", "--color", "never", "--files", threads]);
            if let Some(m) = depth {
                cmd.arg("--max-depth").arg(m.to_string());
            }
            cmd.arg("t").current_dir(&scratch.path);
            let out = cmd.output().unwrap_or_else(|_| machinery_error("cannot run setpriv"));
            runs += 1;
            let got: BTreeSet<String> = String::from_utf8_lossy(&out.stdout).lines().map(|l| l.to_string()).collect();
            let errs = String::from_utf8_lossy(&out.stderr).lines().filter(|l| l.contains("Permission denied")).count();
            let want_status = if want_errors > 0 { 2 } else if want_files.is_empty() { 1 } else { 0 };
            let mut why = vec![];
            if got != want_files {
                why.push("the listed files differ from the reference".to_string());
            }
            if errs != want_errors {
                why.push(format!("{} permission diagnostics, the reference expects {} (a directory at the depth limit is not opened)", errs, want_errors));
            }
            if out.status.code() != Some(want_status) {
                why.push(format!("exit status {:?}, expected {}", out.status.code(), want_status));
            }
            if !why.is_empty() {
                disc.push((
                    format!("unreadable | max-depth {:?} | {}", depth, threads),
                    json!({"kind":"unreadable-directory","max_depth":depth,"threads":threads,"why":why,"stdout":String::from_utf8_lossy(&out.stdout),"stderr":String::from_utf8_lossy(&out.stderr),"status":out.status.code()}),
                ));
            }
        }
    }
    let _ = Command::new("chmod").arg("755").arg(t.join("d")).arg(t.join("k/u")).status();
    if runs == 0 {
        machinery_error("C06: the unreadable-directory layer did not run");
    }
    (runs, disc)
}

pub fn run(args: &Args) -> ! {
    if let Some(r) = &args.replay {
        replay(r);
    }
    let tier = args.tier;
    let mut ev = Evidence::new(args, "exploration");
    let mut verdict = Verdict::new("C06");
    let other = other_device_dir();
    let _ = std::fs::remove_dir_all(&other);
    std::fs::create_dir_all(other.join("xd")).unwrap_or_else(|_| machinery_error("cannot create the other-device directory"));
    std::fs::write(other.join("xd/xf"), b"x").unwrap();
    // a whole second root on the other device: an ignored / filtered
    // directory with content, and a plain one
    std::fs::create_dir_all(other.join("xr/n0/deep")).unwrap();
    std::fs::create_dir_all(other.join("xr/n1")).unwrap();
    std::fs::write(other.join("xr/.ignore"), b"n0\n").unwrap();
    std::fs::write(other.join("xr/n0/f0"), b"x").unwrap();
    std::fs::write(other.join("xr/n0/deep/f1"), b"x").unwrap();
    std::fs::write(other.join("xr/n1/f2"), b"x").unwrap();
    std::fs::write(other.join("xr/g"), b"x").unwrap();
    {
        use std::os::unix::fs::MetadataExt;
        let a = std::fs::metadata(&other).map(|m| m.dev()).unwrap_or(0);
        let b = std::fs::metadata("/dev/shm").map(|m| m.dev()).unwrap_or(0);
        if a == b {
            machinery_error("C06: /tmp and /dev/shm are on the same device; no device boundary available");
        }
    }
    let mut trees: Vec<Tree> = vec![vec![]];
    trees.extend(all_trees(1));
    trees.extend(all_trees(2));
    let t3 = all_trees(3);
    match tier {
        Tier::Quick => trees.extend(t3.into_iter().step_by(11)),
        Tier::Thorough => trees.extend(t3),
    }
    let cs = confs(tier);
    // root variants: the directory; the directory twice is not meaningful, so
    // "two roots" = the directory and a file outside it; a file root; a
    // symlink to the directory as root
    #[derive(Clone, Copy, Debug, PartialEq)]
    enum RootKind {
        Dir,
        DirAndFile,
        File,
        LinkToDir,
        /// the directory and a second root on another file system
        TwoDevices,
        TwoDevicesRev,
    }
    let work: Vec<(usize, usize, RootKind)> = {
        let mut w = vec![];
        for ti in 0..trees.len() {
            for ci in 0..cs.len() {
                w.push((ti, ci, RootKind::Dir));
                if ci % 16 == 3 {
                    w.push((ti, ci, RootKind::DirAndFile));
                    w.push((ti, ci, RootKind::LinkToDir));
                }
                if ti < 2 && ci % 8 == 0 {
                    w.push((ti, ci, RootKind::File));
                }
                if ti < 4 && (cs[ci].ignore_n0 || cs[ci].filter != Filt::None) && cs[ci].max_depth != Some(0) {
                    w.push((ti, ci, RootKind::TwoDevices));
                    w.push((ti, ci, RootKind::TwoDevicesRev));
                }
            }
        }
        w
    };
    let total = Mutex::new(Acc::default());
    let next = std::sync::atomic::AtomicUsize::new(0);
    // once this many discrepancies are on record the verdict is settled; a
    // broken walker can make every remaining walk very slow (e.g. an
    // undetected link cycle is followed until the OS refuses)
    let found = std::sync::atomic::AtomicUsize::new(0);
    // the unhooked parallel walker sleeps 1 ms when idle, so these walks are
    // latency bound: oversubscribe
    let nthreads = ncpu() * 4;
    std::thread::scope(|s| {
        for _ in 0..nthreads {
            s.spawn(|| {
                let mut acc = Acc::default();
                let mut cur: Option<(usize, Fixture)> = None;
                loop {
                    // claim a block of consecutive work items (same tree)
                    let i0 = next.fetch_add(64, std::sync::atomic::Ordering::Relaxed);
                    if i0 >= work.len() || found.load(std::sync::atomic::Ordering::Relaxed) >= 60 {
                        break;
                    }
                    for i in i0..(i0 + 64).min(work.len()) {
                    if found.load(std::sync::atomic::Ordering::Relaxed) >= 60 {
                        break;
                    }
                    let (ti, ci, rk) = work[i];
                    if cur.as_ref().map(|c| c.0) != Some(ti) {
                        cur = Some((ti, Fixture::new(&trees[ti])));
                    }
                    let fx = &cur.as_ref().unwrap().1;
                    let c = &cs[ci];
                    let link_root = fx.root.parent().unwrap().join("rootlink");
                    let roots: Vec<PathBuf> = match rk {
                        RootKind::Dir => vec![fx.root.clone()],
                        RootKind::DirAndFile => vec![fx.root.clone(), fx.root.parent().unwrap().join("outside-file")],
                        RootKind::File => vec![fx.root.parent().unwrap().join("outside-file")],
                        RootKind::LinkToDir => {
                            let _ = std::os::unix::fs::symlink(&fx.root, &link_root);
                            vec![link_root.clone()]
                        }
                        RootKind::TwoDevices => vec![fx.root.clone(), fx.other.join("xr")],
                        RootKind::TwoDevicesRev => vec![fx.other.join("xr"), fx.root.clone()],
                    };
                    let a = serial(fx, c, &roots);
                    let b = parallel(fx, c, &roots);
                    acc.walks += 2;
                    if a.paths.len() > 1 {
                        acc.nontrivial += 1;
                    }
                    if a.errors > 0 {
                        acc.with_error += 1;
                    }
                    if c.follow && trees[ti].iter().any(|n| n.kind == Kind::LinkAncestor) {
                        acc.with_cycle += 1;
                    }
                    let mut why = vec![];
                    if a.paths.values().any(|&n| n > 1) || b.paths.values().any(|&n| n > 1) {
                        why.push("an entry was reported more than once".to_string());
                    }
                    if a.paths != b.paths {
                        why.push("the single-threaded and the parallel walker report different entries".to_string());
                    }
                    if a.errors != b.errors {
                        why.push(format!("error counts differ: serial {} parallel {}", a.errors, b.errors));
                    }
                    if rk != RootKind::LinkToDir {
                        let r = reference(fx, c, &roots);
                        if r.paths != a.paths {
                            why.push("the single-threaded walker differs from the reference lister".to_string());
                        }
                        if r.paths != b.paths {
                            why.push("the parallel walker differs from the reference lister".to_string());
                        }
                        if (r.errors > 0) != (a.errors > 0) {
                            why.push(format!("errors: reference {} serial {}", r.errors, a.errors));
                        }
                    }
                    if !why.is_empty() {
                        found.fetch_add(1, std::sync::atomic::Ordering::Relaxed);
                    }
                    if !why.is_empty() && acc.disc.len() < 40 {
                        let r = reference(fx, c, &roots);
                        acc.disc.push((
                            None,
                            format!("{} | {:?} | {:?}", tree_text(&trees[ti]), c, rk),
                            json!({"kind":"walkers","tree":tree_text(&trees[ti]),"conf":format!("{:?}", c),"roots":format!("{:?}", rk),"why":why,
                                   "serial":a.paths.keys().collect::<Vec<_>>(),"parallel":b.paths.keys().collect::<Vec<_>>(),"reference":r.paths.keys().collect::<Vec<_>>(),
                                   "errors":{"serial":a.errors,"parallel":b.errors,"reference":r.errors},
                                   "tree_index":ti,"conf_index":ci}),
                        ));
                    }
                    }
                }
                let mut t = total.lock().unwrap();
                t.walks += acc.walks;
                t.nontrivial += acc.nontrivial;
                t.with_error += acc.with_error;
                t.with_cycle += acc.with_cycle;
                t.disc.extend(acc.disc);
            });
        }
    });
    let _ = std::fs::remove_dir_all(&other);
    let mut total = total.into_inner().unwrap();
    for (f, k, v) in total.disc.iter() {
        verdict.discrepancy(*f, k, v.clone());
    }
    let nested = nested_ignore_layer(tier);
    for (k, v) in nested.disc.iter() {
        verdict.discrepancy(None, k, v.clone());
    }
    // ---- layer 3: directories that cannot be read, at / above / below the
    // depth limit, through the real binary as an unprivileged user ----------
    let (unreadable_runs, unreadable_disc) = unreadable_layer();
    for (k, v) in unreadable_disc.iter() {
        verdict.discrepancy(None, k, v.clone());
    }
    ev.set("unreadable_directory_runs", unreadable_runs);
    if nested.cases_where_the_rule_hides_something == 0 || nested.cases_with_the_named_entry_outside_the_subtree == 0 {
        machinery_error("C06: nested-ignore layer is vacuous");
    }
    total.walks += nested.walks;
    ev.set("nested_ignore_trees", nested.trees);
    ev.set("nested_ignore_cases", nested.cases);
    ev.set("nested_ignore_cases_where_the_rule_hides_something", nested.cases_where_the_rule_hides_something);
    ev.set("nested_ignore_cases_with_the_named_entry_outside_the_holder", nested.cases_with_the_named_entry_outside_the_subtree);
    // the sweep stops early once 60 discrepancies are on record; the coverage
    // counters are only mandatory for a sweep that ran to its end
    let stopped_early = found.load(std::sync::atomic::Ordering::Relaxed) >= 60;
    ev.set("stopped_early_after_60_discrepancies", stopped_early);
    if !stopped_early && (total.with_cycle == 0 || total.with_error == 0 || total.nontrivial == 0) {
        machinery_error("C06: a mandatory coverage counter is zero");
    }
    ev.set("evaluations", total.walks);
    ev.set("distinct_nontrivial", total.nontrivial);
    ev.set("exhaustive", tier == Tier::Thorough);
    ev.set("trees", trees.len());
    ev.set("configurations", cs.len());
    ev.set("walk_pairs_with_an_error_entry", total.with_error);
    ev.set("walk_pairs_on_trees_with_a_link_cycle_followed", total.with_cycle);
    ev.set(
        "rule",
        format!(
            "trees: every tree with <= 2 nodes{} over node kinds {{dir, small file, large file, hidden file, symlink->file, symlink->dir, symlink->ancestor (cycle), dangling symlink, symlink->directory on another device (/tmp vs /dev/shm)}}, canonical by non-decreasing parent index; configurations: max_depth {{inf,0,1,2}} x max_filesize {{inf,3}} x follow_links x same_file_system x entry filter {{none, reject one name, reject directories}} x hidden filter x an .ignore rule x threads {}; roots: the directory, the directory plus a file, a file, a symlink to the directory. Oracle, three-way: build() and build_parallel() yield the same entries exactly once with the same number of error entries, and both equal an independent recursive lister written from the documentation (reachable without passing a filtered-out directory; depth, size, same-file-system, symlink-following rules; a followed cycle is an error and the walk ends). Roots on two file systems (the tree on /dev/shm and a second root on /tmp holding an ignored directory with content), in both orders, for the configurations with an ignore rule or a filter. Layer 2 (nested ignore files): every tree of directories and files with 2..{} nodes x an .ignore file in the root or in any ONE directory x a rule naming any other node: the name is hidden exactly inside the holder's subtree, in both walkers (the single-threaded walker pops its ignore stack on leaving directories, by one or several levels at once).",
            if tier == Tier::Quick { " and every 11th tree with 3 nodes" } else { " and 3 nodes" },
            if tier == Tier::Quick { "{2}" } else { "{2,4} (and 16 for a quarter of the configurations)" },
            tier.pick(4, 5)
        ),
    );
    ev.set("samples", json!([{"tree": tree_text(&trees[trees.len() / 2]), "conf": format!("{:?}", cs[cs.len() / 3])}]));
    ev.assume("scratch trees on /dev/shm; /tmp is on another device");
    verdict.finish(ev)
}

fn replay(path: &str) -> ! {
    let text = std::fs::read_to_string(path).unwrap_or_else(|_| machinery_error("cannot read replay"));
    let v: Value = serde_json::from_str(&text).unwrap_or_else(|_| machinery_error("bad replay"));
    println!("tree {} | {} | roots {}\n why {}\n serial    {}\n parallel  {}\n reference {}\n errors {}", v["tree"], v["conf"], v["roots"], v["why"], v["serial"], v["parallel"], v["reference"], v["errors"]);
    std::process::exit(2)
}
