//! C06 — the single-threaded and the parallel walker report the same
//! entries, once each, and exactly the reachable ones. E1: every tree with up
//! to 2 (quick: plus a sample of 3) / 3 nodes over nine node kinds x every
//! traversal configuration; three-way oracle: `build()` vs
//! `build_parallel()` vs an independent recursive lister.

use std::{
    collections::BTreeMap,
    path::{Path, PathBuf},
    sync::{Arc, Mutex},
};

use ignore::{WalkBuilder, WalkState};
use serde_json::{json, Value};

use crate::core::*;

#[derive(Clone, Copy, Debug, PartialEq, Eq, Hash, PartialOrd, Ord)]
enum Kind {
    Dir,
    File,
    BigFile,
    HiddenFile,
    LinkFile,
    LinkDir,
    LinkAncestor,
    Dangling,
    LinkOtherDev,
}

const KINDS: &[Kind] = &[
    Kind::Dir, Kind::File, Kind::BigFile, Kind::HiddenFile, Kind::LinkFile, Kind::LinkDir, Kind::LinkAncestor, Kind::Dangling, Kind::LinkOtherDev,
];

#[derive(Clone, Debug, PartialEq, Eq, Hash, PartialOrd, Ord)]
struct Node {
    kind: Kind,
    /// index of the parent node (None: directly below the root)
    parent: Option<usize>,
}

type Tree = Vec<Node>;

fn all_trees(n: usize) -> Vec<Tree> {
    // parent indices non-decreasing (canonical up to sibling order)
    fn rec(n: usize, cur: &mut Tree, out: &mut Vec<Tree>) {
        if cur.len() == n {
            out.push(cur.clone());
            return;
        }
        let min_parent: i64 = cur.last().map_or(-1, |l| l.parent.map_or(-1, |p| p as i64));
        let mut parents: Vec<Option<usize>> = vec![];
        if min_parent < 0 {
            parents.push(None);
        }
        for (i, nd) in cur.iter().enumerate() {
            if nd.kind == Kind::Dir && (i as i64) >= min_parent {
                parents.push(Some(i));
            }
        }
        for p in parents {
            for &k in KINDS {
                cur.push(Node { kind: k, parent: p });
                rec(n, cur, out);
                cur.pop();
            }
        }
    }
    let mut out = vec![];
    rec(n, &mut vec![], &mut out);
    out
}

fn node_name(i: usize, k: Kind) -> String {
    match k {
        Kind::HiddenFile => format!(".n{}", i),
        _ => format!("n{}", i),
    }
}

struct Fixture {
    _scratch: Scratch,
    root: PathBuf,
    other: PathBuf,
}

fn rel_path(t: &Tree, i: usize) -> String {
    let mut parts = vec![node_name(i, t[i].kind)];
    let mut p = t[i].parent;
    while let Some(pi) = p {
        parts.push(node_name(pi, t[pi].kind));
        p = t[pi].parent;
    }
    parts.reverse();
    parts.join("/")
}

fn other_device_dir() -> PathBuf {
    // scratch trees live on /dev/shm (tmpfs); /tmp is on another device
    PathBuf::from(format!("/tmp/verif-c06-otherdev-{}", std::process::id()))
}

impl Fixture {
    fn new(t: &Tree) -> Fixture {
        let scratch = Scratch::new("c06");
        let root = scratch.path.join("root");
        std::fs::create_dir_all(&root).unwrap_or_else(|_| machinery_error("scratch"));
        let other = other_device_dir();
        for (i, nd) in t.iter().enumerate() {
            let p = root.join(rel_path(t, i));
            let r = match nd.kind {
                Kind::Dir => std::fs::create_dir(&p),
                Kind::File | Kind::HiddenFile => std::fs::write(&p, b"x"),
                Kind::BigFile => std::fs::write(&p, b"0123456789"),
                Kind::LinkFile => {
                    // the first regular file of the tree, else a file outside
                    let target = t.iter().enumerate().find(|(_, n)| matches!(n.kind, Kind::File | Kind::BigFile)).map(|(j, _)| root.join(rel_path(t, j))).unwrap_or(scratch.path.join("outside-file"));
                    std::os::unix::fs::symlink(target, &p)
                }
                Kind::LinkDir => {
                    // a directory that is not an ancestor: outside the tree
                    std::os::unix::fs::symlink(scratch.path.join("outside-dir"), &p)
                }
                Kind::LinkAncestor => {
                    let target = match nd.parent {
                        Some(pi) => root.join(rel_path(t, pi)),
                        None => root.clone(),
                    };
                    std::os::unix::fs::symlink(target, &p)
                }
                Kind::Dangling => std::os::unix::fs::symlink(scratch.path.join("nonexistent"), &p),
                Kind::LinkOtherDev => std::os::unix::fs::symlink(other.join("xd"), &p),
            };
            if r.is_err() {
                machinery_error("cannot build the scratch tree");
            }
        }
        // the ignore rule of the configurations (read only when enabled)
        std::fs::write(root.join(".ignore"), b"n0\n").unwrap();
        std::fs::write(scratch.path.join("outside-file"), b"x").unwrap();
        std::fs::create_dir_all(scratch.path.join("outside-dir/sub")).unwrap();
        std::fs::write(scratch.path.join("outside-dir/of"), b"x").unwrap();
        std::fs::write(scratch.path.join("outside-dir/sub/og"), b"0123456789").unwrap();
        Fixture { _scratch: scratch, root, other }
    }
}

#[derive(Clone, Copy, Debug, PartialEq, Eq, Hash, PartialOrd, Ord)]
enum Filt {
    None,
    RejectN1,
    RejectDirs,
}

#[derive(Clone, Copy, Debug, PartialEq, Eq, Hash, PartialOrd, Ord)]
struct Conf {
    max_depth: Option<usize>,
    max_filesize: Option<u64>,
    follow: bool,
    same_fs: bool,
    filter: Filt,
    hidden: bool,
    ignore_n0: bool,
    threads: usize,
}

fn confs(tier: Tier) -> Vec<Conf> {
    let mut out = vec![];
    for max_depth in [None, Some(0), Some(1), Some(2)] {
        for max_filesize in [None, Some(3u64)] {
            for follow in [false, true] {
                for same_fs in [false, true] {
                    for filter in [Filt::None, Filt::RejectN1, Filt::RejectDirs] {
                        for hidden in [true, false] {
                            for ignore_n0 in [false, true] {
                                let threads: Vec<usize> = tier.pick(vec![2], vec![2, 4, 16]);
                                for th in threads {
                                    out.push(Conf { max_depth, max_filesize, follow, same_fs, filter, hidden, ignore_n0, threads: th });
                                }
                            }
                        }
                    }
                }
            }
        }
    }
    out
}

fn builder(fx: &Fixture, c: &Conf, roots: &[PathBuf]) -> WalkBuilder {
    let mut b = WalkBuilder::new(&roots[0]);
    for r in roots.iter().skip(1) {
        b.add(r);
    }
    b.standard_filters(false)
        .hidden(c.hidden)
        .ignore(c.ignore_n0)
        .parents(false)
        .max_depth(c.max_depth)
        .max_filesize(c.max_filesize)
        .follow_links(c.follow)
        .same_file_system(c.same_fs)
        .threads(c.threads);
    match c.filter {
        Filt::None => {}
        Filt::RejectN1 => {
            b.filter_entry(|e| e.file_name() != "n1");
        }
        Filt::RejectDirs => {
            b.filter_entry(|e| !e.file_type().map_or(false, |t| t.is_dir()));
        }
    }
    let _ = fx;
    b
}

#[derive(Debug, Default, PartialEq, Eq, Clone)]
struct Listing {
    /// path -> how many times yielded
    paths: BTreeMap<String, usize>,
    errors: usize,
}

fn rel(fx: &Fixture, p: &Path) -> String {
    p.strip_prefix(fx.root.parent().unwrap()).unwrap_or(p).to_string_lossy().to_string()
}

fn serial(fx: &Fixture, c: &Conf, roots: &[PathBuf]) -> Listing {
    let mut l = Listing::default();
    for e in builder(fx, c, roots).build() {
        match e {
            Ok(e) => *l.paths.entry(rel(fx, e.path())).or_insert(0) += 1,
            Err(_) => l.errors += 1,
        }
    }
    l
}

fn parallel(fx: &Fixture, c: &Conf, roots: &[PathBuf]) -> Listing {
    let l = Arc::new(Mutex::new(Listing::default()));
    let base = fx.root.parent().unwrap().to_path_buf();
    builder(fx, c, roots).build_parallel().run(|| {
        let l = l.clone();
        let base = base.clone();
        Box::new(move |e| {
            let mut l = l.lock().unwrap();
            match e {
                Ok(e) => {
                    let r = e.path().strip_prefix(&base).unwrap_or(e.path()).to_string_lossy().to_string();
                    *l.paths.entry(r).or_insert(0) += 1;
                }
                Err(_) => l.errors += 1,
            }
            WalkState::Continue
        })
    });
    let r = l.lock().unwrap().clone();
    r
}

/// The independent lister, written from the documentation.
fn reference(fx: &Fixture, c: &Conf, roots: &[PathBuf]) -> Listing {
    use std::os::unix::fs::MetadataExt;
    let mut l = Listing::default();
    fn walk(fx: &Fixture, c: &Conf, p: &Path, depth: usize, root_dev: u64, ancestors: &mut Vec<(u64, u64)>, l: &mut Listing) {
        // p is a directory to list
        let Ok(rd) = std::fs::read_dir(p) else {
            l.errors += 1;
            return;
        };
        for ent in rd.flatten() {
            let path = ent.path();
            let name = ent.file_name().to_string_lossy().to_string();
            let Ok(lmd) = std::fs::symlink_metadata(&path) else { continue };
            let is_link = lmd.file_type().is_symlink();
            // the entry as the walker sees it: followed if follow_links
            let md = if is_link && c.follow {
                match std::fs::metadata(&path) {
                    Ok(m) => m,
                    Err(_) => {
                        l.errors += 1; // dangling link under follow_links
                        continue;
                    }
                }
            } else {
                lmd.clone()
            };
            let is_dir = md.is_dir();
            if is_dir && is_link && c.follow {
                // link cycle: the target is one of the ancestors
                if ancestors.contains(&(md.dev(), md.ino())) {
                    l.errors += 1;
                    continue;
                }
            }
            // filters: hidden, ignore rule, size, caller's predicate
            if c.hidden && name.starts_with('.') {
                continue;
            }
            if c.ignore_n0 && name == "n0" {
                continue;
            }
            if let (Some(max), false) = (c.max_filesize, is_dir) {
                if md.len() > max {
                    continue;
                }
            }
            match c.filter {
                Filt::None => {}
                Filt::RejectN1 => {
                    if name == "n1" {
                        continue;
                    }
                }
                Filt::RejectDirs => {
                    if is_dir {
                        continue;
                    }
                }
            }
            *l.paths.entry(rel(fx, &path)).or_insert(0) += 1;
            if is_dir {
                if c.max_depth.map_or(false, |m| depth >= m) {
                    continue;
                }
                if c.same_fs && md.dev() != root_dev {
                    continue;
                }
                ancestors.push((md.dev(), md.ino()));
                walk(fx, c, &path, depth + 1, root_dev, ancestors, l);
                ancestors.pop();
            }
        }
    }
    for r in roots {
        let Ok(md) = std::fs::metadata(r) else {
            l.errors += 1;
            continue;
        };
        *l.paths.entry(rel(fx, r)).or_insert(0) += 1;
        if md.is_dir() && c.max_depth != Some(0) {
            let mut anc = vec![(md.dev(), md.ino())];
            walk(fx, c, r, 1, md.dev(), &mut anc, &mut l);
        }
    }
    l
}

#[derive(Default)]
struct Acc {
    walks: u64,
    nontrivial: u64,
    with_error: u64,
    with_cycle: u64,
    disc: Vec<(Option<&'static str>, String, Value)>,
}

fn tree_text(t: &Tree) -> String {
    t.iter().enumerate().map(|(i, n)| format!("{}:{:?}@{}", i, n.kind, n.parent.map_or("root".to_string(), |p| p.to_string()))).collect::<Vec<_>>().join(" ")
}

pub fn run(args: &Args) -> ! {
    if let Some(r) = &args.replay {
        replay(r);
    }
    let tier = args.tier;
    let mut ev = Evidence::new(args, "exploration");
    let mut verdict = Verdict::new("C06");
    let other = other_device_dir();
    let _ = std::fs::remove_dir_all(&other);
    std::fs::create_dir_all(other.join("xd")).unwrap_or_else(|_| machinery_error("cannot create the other-device directory"));
    std::fs::write(other.join("xd/xf"), b"x").unwrap();
    {
        use std::os::unix::fs::MetadataExt;
        let a = std::fs::metadata(&other).map(|m| m.dev()).unwrap_or(0);
        let b = std::fs::metadata("/dev/shm").map(|m| m.dev()).unwrap_or(0);
        if a == b {
            machinery_error("C06: /tmp and /dev/shm are on the same device; no device boundary available");
        }
    }
    let mut trees: Vec<Tree> = vec![vec![]];
    trees.extend(all_trees(1));
    trees.extend(all_trees(2));
    let t3 = all_trees(3);
    match tier {
        Tier::Quick => trees.extend(t3.into_iter().step_by(11)),
        Tier::Thorough => trees.extend(t3),
    }
    let cs = confs(tier);
    // root variants: the directory; the directory twice is not meaningful, so
    // "two roots" = the directory and a file outside it; a file root; a
    // symlink to the directory as root
    #[derive(Clone, Copy, Debug, PartialEq)]
    enum RootKind {
        Dir,
        DirAndFile,
        File,
        LinkToDir,
    }
    let work: Vec<(usize, usize, RootKind)> = {
        let mut w = vec![];
        for ti in 0..trees.len() {
            for ci in 0..cs.len() {
                w.push((ti, ci, RootKind::Dir));
                if ci % 16 == 3 {
                    w.push((ti, ci, RootKind::DirAndFile));
                    w.push((ti, ci, RootKind::LinkToDir));
                }
                if ti < 2 && ci % 8 == 0 {
                    w.push((ti, ci, RootKind::File));
                }
            }
        }
        w
    };
    let total = Mutex::new(Acc::default());
    let next = std::sync::atomic::AtomicUsize::new(0);
    // the unhooked parallel walker sleeps 1 ms when idle, so these walks are
    // latency bound: oversubscribe
    let nthreads = ncpu() * 4;
    std::thread::scope(|s| {
        for _ in 0..nthreads {
            s.spawn(|| {
                let mut acc = Acc::default();
                let mut cur: Option<(usize, Fixture)> = None;
                loop {
                    // claim a block of consecutive work items (same tree)
                    let i0 = next.fetch_add(64, std::sync::atomic::Ordering::Relaxed);
                    if i0 >= work.len() {
                        break;
                    }
                    for i in i0..(i0 + 64).min(work.len()) {
                    let (ti, ci, rk) = work[i];
                    if cur.as_ref().map(|c| c.0) != Some(ti) {
                        cur = Some((ti, Fixture::new(&trees[ti])));
                    }
                    let fx = &cur.as_ref().unwrap().1;
                    let c = &cs[ci];
                    let link_root = fx.root.parent().unwrap().join("rootlink");
                    let roots: Vec<PathBuf> = match rk {
                        RootKind::Dir => vec![fx.root.clone()],
                        RootKind::DirAndFile => vec![fx.root.clone(), fx.root.parent().unwrap().join("outside-file")],
                        RootKind::File => vec![fx.root.parent().unwrap().join("outside-file")],
                        RootKind::LinkToDir => {
                            let _ = std::os::unix::fs::symlink(&fx.root, &link_root);
                            vec![link_root.clone()]
                        }
                    };
                    let a = serial(fx, c, &roots);
                    let b = parallel(fx, c, &roots);
                    acc.walks += 2;
                    if a.paths.len() > 1 {
                        acc.nontrivial += 1;
                    }
                    if a.errors > 0 {
                        acc.with_error += 1;
                    }
                    if c.follow && trees[ti].iter().any(|n| n.kind == Kind::LinkAncestor) {
                        acc.with_cycle += 1;
                    }
                    let mut why = vec![];
                    if a.paths.values().any(|&n| n > 1) || b.paths.values().any(|&n| n > 1) {
                        why.push("an entry was reported more than once".to_string());
                    }
                    if a.paths != b.paths {
                        why.push("the single-threaded and the parallel walker report different entries".to_string());
                    }
                    if a.errors != b.errors {
                        why.push(format!("error counts differ: serial {} parallel {}", a.errors, b.errors));
                    }
                    if rk != RootKind::LinkToDir {
                        let r = reference(fx, c, &roots);
                        if r.paths != a.paths {
                            why.push("the single-threaded walker differs from the reference lister".to_string());
                        }
                        if r.paths != b.paths {
                            why.push("the parallel walker differs from the reference lister".to_string());
                        }
                        if (r.errors > 0) != (a.errors > 0) {
                            why.push(format!("errors: reference {} serial {}", r.errors, a.errors));
                        }
                    }
                    if !why.is_empty() && acc.disc.len() < 40 {
                        let r = reference(fx, c, &roots);
                        acc.disc.push((
                            None,
                            format!("{} | {:?} | {:?}", tree_text(&trees[ti]), c, rk),
                            json!({"kind":"walkers","tree":tree_text(&trees[ti]),"conf":format!("{:?}", c),"roots":format!("{:?}", rk),"why":why,
                                   "serial":a.paths.keys().collect::<Vec<_>>(),"parallel":b.paths.keys().collect::<Vec<_>>(),"reference":r.paths.keys().collect::<Vec<_>>(),
                                   "errors":{"serial":a.errors,"parallel":b.errors,"reference":r.errors},
                                   "tree_index":ti,"conf_index":ci}),
                        ));
                    }
                    }
                }
                let mut t = total.lock().unwrap();
                t.walks += acc.walks;
                t.nontrivial += acc.nontrivial;
                t.with_error += acc.with_error;
                t.with_cycle += acc.with_cycle;
                t.disc.extend(acc.disc);
            });
        }
    });
    let _ = std::fs::remove_dir_all(&other);
    let total = total.into_inner().unwrap();
    for (f, k, v) in total.disc.iter() {
        verdict.discrepancy(*f, k, v.clone());
    }
    if total.with_cycle == 0 || total.with_error == 0 || total.nontrivial == 0 {
        machinery_error("C06: a mandatory coverage counter is zero");
    }
    ev.set("evaluations", total.walks);
    ev.set("distinct_nontrivial", total.nontrivial);
    ev.set("exhaustive", tier == Tier::Thorough);
    ev.set("trees", trees.len());
    ev.set("configurations", cs.len());
    ev.set("walk_pairs_with_an_error_entry", total.with_error);
    ev.set("walk_pairs_on_trees_with_a_link_cycle_followed", total.with_cycle);
    ev.set(
        "rule",
        format!(
            "trees: every tree with <= 2 nodes{} over node kinds {{dir, small file, large file, hidden file, symlink->file, symlink->dir, symlink->ancestor (cycle), dangling symlink, symlink->directory on another device (/tmp vs /dev/shm)}}, canonical by non-decreasing parent index; configurations: max_depth {{inf,0,1,2}} x max_filesize {{inf,3}} x follow_links x same_file_system x entry filter {{none, reject one name, reject directories}} x hidden filter x an .ignore rule x threads {}; roots: the directory, the directory plus a file, a file, a symlink to the directory. Oracle, three-way: build() and build_parallel() yield the same entries exactly once with the same number of error entries, and both equal an independent recursive lister written from the documentation (reachable without passing a filtered-out directory; depth, size, same-file-system, symlink-following rules; a followed cycle is an error and the walk ends).",
            if tier == Tier::Quick { " and every 11th tree with 3 nodes" } else { " and 3 nodes" },
            if tier == Tier::Quick { "{2}" } else { "{2,4,16}" }
        ),
    );
    ev.set("samples", json!([{"tree": tree_text(&trees[trees.len() / 2]), "conf": format!("{:?}", cs[cs.len() / 3])}]));
    ev.assume("scratch trees on /dev/shm; /tmp is on another device");
    verdict.finish(ev)
}

fn replay(path: &str) -> ! {
    let text = std::fs::read_to_string(path).unwrap_or_else(|_| machinery_error("cannot read replay"));
    let v: Value = serde_json::from_str(&text).unwrap_or_else(|_| machinery_error("bad replay"));
    println!("tree {} | {} | roots {}\n why {}\n serial    {}\n parallel  {}\n reference {}\n errors {}", v["tree"], v["conf"], v["roots"], v["why"], v["serial"], v["parallel"], v["reference"], v["errors"]);
    std::process::exit(2)
}
