//! C16 — stopping early or failing mid-stream yields a prefix of the full
//! results. Fault enumeration (E1/E5): for every result index k the sink
//! answers stop or error; for every read index j the reader fails or is
//! interrupted; plus `-m N` at printer level for every N.

use std::collections::BTreeMap;

use grep_regex::RegexMatcherBuilder;
use grep_searcher::BinaryDetection;
use serde_json::json;

use crate::{c03::*, core::*, srch::*};

#[derive(Clone, Copy, Debug, PartialEq, Eq, Hash, PartialOrd, Ord)]
enum Bin {
    None,
    Quit,
    Convert,
}

#[derive(Clone, Copy, Debug, PartialEq, Eq, Hash, PartialOrd, Ord)]
enum M16 {
    Toy(LinePath),
    Regex,
    /// a regex that can match across lines: `m(?:\nm)?`, multi-line strategy
    RegexMl,
}

enum Any16 {
    Toy(ByteMatcher),
    Regex(grep_regex::RegexMatcher),
}

#[derive(Clone, Copy, Debug)]
struct Case {
    cfg: Cfg,
    bin: Bin,
    mk: M16,
    strat: Strat,
}

fn matcher_for(c: &Case) -> Any16 {
    match c.mk {
        M16::Toy(p) => Any16::Toy(ByteMatcher { needle: b'm', path: p, term: c.cfg.term.lt() }),
        M16::Regex => {
            let mut b = RegexMatcherBuilder::new();
            b.line_terminator(Some(b'\n'));
            Any16::Regex(b.build("m").unwrap())
        }
        M16::RegexMl => {
            let mut b = RegexMatcherBuilder::new();
            b.multi_line(true);
            Any16::Regex(b.build(r"m(?:\nm)?").unwrap())
        }
    }
}

fn searcher_for(c: &Case) -> grep_searcher::Searcher {
    let mut b = c.cfg.builder();
    b.binary_detection(match c.bin {
        Bin::None => BinaryDetection::none(),
        Bin::Quit => BinaryDetection::quit(0),
        Bin::Convert => BinaryDetection::convert(0),
    });
    match c.strat {
        Strat::Slice => {}
        Strat::Reader { cap, .. } => {
            b.verif_buffer_capacity(Some(cap));
        }
    }
    b.build()
}

struct Run {
    events: Vec<Ev>,
    err: Option<String>,
    finishes: usize,
    reads: usize,
    after_deviation: usize,
}

fn exec(c: &Case, m: &Any16, input: &[u8], deviate: Option<(usize, Answer)>, fault: Option<(usize, ReadFault)>) -> Run {
    let mut s = searcher_for(c);
    let mut rec = Rec::with(deviate);
    let mut reads = 0;
    let res = match c.strat {
        Strat::Slice => match m {
            Any16::Toy(t) => s.search_slice(t, input, &mut rec),
            Any16::Regex(r) => s.search_slice(r, input, &mut rec),
        },
        Strat::Reader { frag, .. } => {
            let sizes: [usize; 0] = [];
            let mut rdr = FragReader::new(input, &sizes, frag);
            rdr.fault = fault;
            let r = match m {
                Any16::Toy(t) => s.search_reader(t, &mut rdr, &mut rec),
                Any16::Regex(r) => s.search_reader(r, &mut rdr, &mut rec),
            };
            reads = rdr.reads;
            r
        }
    };
    Run { events: rec.events, err: res.err().map(|e| e.to_string()), finishes: rec.finishes, reads, after_deviation: rec.calls_after_deviation }
}

fn body(events: &[Ev]) -> &[Ev] {
    match events.last() {
        Some(Ev::Finish { .. }) => &events[..events.len() - 1],
        _ => events,
    }
}

#[derive(Default)]
struct Acc {
    runs: u64,
    stop_points: u64,
    fail_points: u64,
    read_faults: u64,
    interrupted_absorbed: u64,
    interrupted_surfaced: u64,
    kinds: BTreeMap<String, u64>,
    nontrivial: u64,
    printer_runs: u64,
    disc: Vec<(String, serde_json::Value)>,
}

fn kind_of(e: &Ev) -> &'static str {
    match e {
        Ev::Begin => "begin",
        Ev::Match { .. } => "matched",
        Ev::Ctx { .. } => "context",
        Ev::Break => "context_break",
        Ev::Binary(_) => "binary_data",
        Ev::Finish { .. } => "finish",
    }
}

fn judge_all(c: &Case, m: &Any16, input: &[u8], acc: &mut Acc, per_case: &mut usize) {
    let full = exec(c, m, input, None, None);
    acc.runs += 1;
    if full.err.is_some() || full.finishes != 1 {
        // heap / config errors do not occur in this space
        push(acc, per_case, c, input, "uninterrupted-run-failed", json!({"error": full.err}), &full.events, &[]);
        return;
    }
    let l = body(&full.events).to_vec();
    if l.len() > 1 {
        acc.nontrivial += 1;
    }
    for k in 0..l.len() {
        *acc.kinds.entry(kind_of(&l[k]).to_string()).or_insert(0) += 1;
        // stop at k
        let r = exec(c, m, input, Some((k, Answer::Stop)), None);
        acc.runs += 1;
        acc.stop_points += 1;
        let got = body(&r.events);
        let ok = r.err.is_none() && r.finishes == 1 && got == &l[..=k] && matches!(r.events.last(), Some(Ev::Finish { .. }));
        if !ok {
            push(acc, per_case, c, input, "stop", json!({"k": k, "event": l[k].show(), "error": r.err, "finishes": r.finishes, "calls_after_stop": r.after_deviation}), &r.events, &l);
        }
        // error at k
        let r = exec(c, m, input, Some((k, Answer::Fail)), None);
        acc.runs += 1;
        acc.fail_points += 1;
        let ok = r.err.as_deref().map_or(false, |e| e.contains("sink-injected")) && r.finishes == 0 && r.events[..] == l[..=k];
        if !ok {
            push(acc, per_case, c, input, "sink-error", json!({"k": k, "event": l[k].show(), "error": r.err, "finishes": r.finishes}), &r.events, &l);
        }
    }
    if let Strat::Reader { .. } = c.strat {
        for j in 0..full.reads {
            let r = exec(c, m, input, None, Some((j, ReadFault::Other)));
            acc.runs += 1;
            acc.read_faults += 1;
            let is_prefix = r.events.len() <= l.len() && r.events[..] == l[..r.events.len()];
            let ok = r.err.as_deref().map_or(false, |e| e.contains("read-injected")) && r.finishes == 0 && is_prefix;
            if !ok {
                push(acc, per_case, c, input, "read-error", json!({"j": j, "error": r.err, "finishes": r.finishes}), &r.events, &l);
            }
            let r = exec(c, m, input, None, Some((j, ReadFault::Interrupted)));
            acc.runs += 1;
            acc.read_faults += 1;
            let is_prefix = r.events.len() <= l.len() && r.events[..] == l[..r.events.len()];
            let surfaced = r.err.as_deref().map_or(false, |e| e.contains("interrupted-injected")) && r.finishes == 0 && is_prefix;
            let absorbed = r.err.is_none() && r.finishes == 1 && r.events == full.events;
            if surfaced {
                acc.interrupted_surfaced += 1;
            }
            if absorbed {
                acc.interrupted_absorbed += 1;
            }
            if !surfaced && !absorbed {
                push(acc, per_case, c, input, "read-interrupted", json!({"j": j, "error": r.err, "finishes": r.finishes}), &r.events, &l);
            }
        }
    }
}

fn push(acc: &mut Acc, per_case: &mut usize, c: &Case, input: &[u8], what: &str, extra: serde_json::Value, got: &[Ev], full: &[Ev]) {
    if *per_case < 2 && acc.disc.len() < 300 {
        *per_case += 1;
        acc.disc.push((
            format!("{} | {} {:?} | {:?} | {:?} | {}", what, c.cfg.show(), c.bin, c.mk, c.strat, esc(input)),
            json!({
                "kind": "crash-point", "what": what, "at": extra,
                "cfg": cfg_json(&c.cfg), "binary": format!("{:?}", c.bin), "matcher": format!("{:?}", c.mk),
                "strategy": format!("{:?}", c.strat), "input": esc(input),
                "delivered": show(got), "uninterrupted": show(full),
            }),
        ));
    }
}

// ---- -m N at printer level --------------------------------------------------

fn printer_lines(input: &[u8], cfg: &Cfg, mk: M16, strat: Strat, n: Option<u64>) -> Result<Vec<u64>, String> {
    use grep_printer::StandardBuilder;
    let mut pb = StandardBuilder::new();
    pb.max_matches(n);
    let mut printer = pb.build_no_color(vec![]);
    let case = Case { cfg: *cfg, bin: Bin::None, mk, strat };
    let m = matcher_for(&case);
    let mut s = searcher_for(&case);
    let res = match (&m, strat) {
        (Any16::Regex(r), Strat::Slice) => s.search_slice(r, input, printer.sink(r)),
        (Any16::Regex(r), Strat::Reader { frag, .. }) => {
            let sizes: [usize; 0] = [];
            s.search_reader(r, FragReader::new(input, &sizes, frag), printer.sink(r))
        }
        _ => return Err("printer needs a regex matcher".into()),
    };
    if let Err(e) = res {
        return Err(e.to_string());
    }
    let out = printer.into_inner().into_inner();
    let mut nums = vec![];
    for line in out.split(|&b| b == b'\n') {
        if line.is_empty() || line == b"--" {
            continue;
        }
        let digits: Vec<u8> = line.iter().copied().take_while(|b| b.is_ascii_digit()).collect();
        if digits.is_empty() {
            // continuation of a multi-line record or unexpected text
            continue;
        }
        nums.push(String::from_utf8(digits).unwrap().parse::<u64>().unwrap());
    }
    Ok(nums)
}

/// Expected delivered line numbers for `-m N`: the first N matching lines
/// plus the context windows they are entitled to.
fn max_count_model(input: &[u8], cfg: &Cfg, n: u64) -> Vec<u64> {
    let lines = split_lines(input, b'\n');
    let hits: Vec<bool> = lines.iter().map(|&(s, e)| input[s..e].contains(&b'm') != cfg.invert).collect();
    let mut chosen = vec![];
    for (i, &h) in hits.iter().enumerate() {
        if h && (chosen.len() as u64) < n {
            chosen.push(i);
        }
    }
    let mut out = std::collections::BTreeSet::new();
    for &i in chosen.iter() {
        out.insert(i as u64 + 1);
        for j in i.saturating_sub(cfg.before)..i {
            out.insert(j as u64 + 1);
        }
        for j in i + 1..=(i + cfg.after).min(lines.len().saturating_sub(1)) {
            out.insert(j as u64 + 1);
        }
    }
    out.into_iter().collect()
}

pub fn run(args: &Args) -> ! {
    if let Some(r) = &args.replay {
        replay(r);
    }
    let tier = args.tier;
    let mut ev = Evidence::new(args, "fault_enumeration");
    let mut verdict = Verdict::new("C16");
    let maxlen = tier.pick(6, 7);
    let al: Vec<u8> = vec![b'm', b'x', b'\n', 0];
    let nin = seq_count(al.len(), maxlen);
    let mut idx = vec![];
    let inputs: Vec<Vec<u8>> = (0..nin)
        .map(|i| {
            seq_decode(al.len(), i, &mut idx);
            idx.iter().map(|&k| al[k]).collect()
        })
        .collect();
    let mut cases: Vec<Case> = vec![];
    let ctxs: Vec<(usize, usize)> = match tier {
        Tier::Quick => vec![(0, 0), (1, 0), (0, 1), (1, 1), (2, 0)],
        Tier::Thorough => vec![(0, 0), (1, 0), (0, 1), (1, 1), (2, 0), (0, 2), (2, 2)],
    };
    for &(a, b) in ctxs.iter() {
        for passthru in [false, true] {
            if passthru && (a, b) != (0, 0) {
                continue;
            }
            for invert in [false, true] {
                for stop in [false, true] {
                    for bin in [Bin::None, Bin::Quit, Bin::Convert] {
                        for mk in [M16::Toy(LinePath::Fast), M16::Toy(LinePath::Candidate), M16::Toy(LinePath::Slow), M16::Regex, M16::RegexMl] {
                            for strat in [Strat::Slice, Strat::Reader { cap: 1, frag: 1 }, Strat::Reader { cap: 3, frag: 2 }] {
                                let multi_line = mk == M16::RegexMl;
                                let cfg = Cfg { term: Term::Lf, invert, after: a, before: b, passthru, line_number: true, stop_on_nonmatch: stop, multi_line };
                                cases.push(Case { cfg, bin, mk, strat });
                                if mk == M16::Toy(LinePath::Slow) {
                                    // the toy matcher under multi_line: multi-line strategy with one-line matches
                                    let cfg = Cfg { multi_line: true, ..cfg };
                                    cases.push(Case { cfg, bin, mk, strat });
                                }
                            }
                        }
                    }
                }
            }
        }
    }
    let ncases = cases.len();
    let mut total = Acc::default();
    par_fold(
        ncases,
        2,
        Acc::default,
        |acc, ci| {
            let c = cases[ci];
            let m = matcher_for(&c);
            let mut per_case = 0;
            for input in inputs.iter() {
                judge_all(&c, &m, input, acc, &mut per_case);
            }
        },
        |a| {
            total.runs += a.runs;
            total.stop_points += a.stop_points;
            total.fail_points += a.fail_points;
            total.read_faults += a.read_faults;
            total.interrupted_absorbed += a.interrupted_absorbed;
            total.interrupted_surfaced += a.interrupted_surfaced;
            total.nontrivial += a.nontrivial;
            for (k, v) in a.kinds {
                *total.kinds.entry(k).or_insert(0) += v;
            }
            total.disc.extend(a.disc);
        },
    );
    // -m N at printer level: inputs without NUL, N in 0..=matches+1
    let pin: Vec<&Vec<u8>> = inputs.iter().filter(|i| !i.contains(&0)).collect();
    let mut pcases = vec![];
    for &(a, b) in [(0usize, 0usize), (1, 0), (0, 1), (2, 1), (1, 2)].iter() {
        for invert in [false, true] {
            for mk in [M16::Regex, M16::RegexMl] {
                for strat in [Strat::Slice, Strat::Reader { cap: 2, frag: 1 }] {
                    let cfg = Cfg { term: Term::Lf, invert, after: a, before: b, passthru: false, line_number: true, stop_on_nonmatch: false, multi_line: mk == M16::RegexMl };
                    pcases.push((cfg, mk, strat));
                }
            }
        }
    }
    let mut ptotal = Acc::default();
    par_fold(
        pcases.len(),
        1,
        Acc::default,
        |acc, pi| {
            let (cfg, mk, strat) = pcases[pi];
            let mut per = 0;
            for input in pin.iter() {
                // the multi-line regex may join lines; the model below is for
                // single-line matches, so RegexMl is only judged on inputs
                // where no match spans lines
                // (and multi-line mode hands adjacent matching lines to the
                // sink as ONE block, by design — ripgrep issue 1311 — so "N
                // matches" is only well defined when no two matching lines are
                // adjacent; see DESIGN.md section 8)
                if mk == M16::RegexMl {
                    let ls = split_lines(input, b'\n');
                    let h: Vec<bool> = ls.iter().map(|&(s, e)| input[s..e].contains(&b'm')).collect();
                    if h.windows(2).any(|w| w[0] && w[1]) {
                        continue;
                    }
                }
                let total_matches = max_count_model(input, &cfg, u64::MAX).len() as u64;
                for n in 0..=(total_matches + 1).min(6) {
                    acc.printer_runs += 1;
                    let want = max_count_model(input, &cfg, n);
                    match printer_lines(input, &cfg, mk, strat, Some(n)) {
                        Ok(got) => {
                            let mut g = got.clone();
                            g.sort();
                            let dup = g.windows(2).any(|w| w[0] == w[1]);
                            g.dedup();
                            if g != want || dup {
                                if per < 2 && acc.disc.len() < 100 {
                                    per += 1;
                                    acc.disc.push((
                                        format!("max-count | {} | {:?} | {:?} | N={} | {}", cfg.show(), mk, strat, n, esc(input)),
                                        json!({"kind":"max-count","cfg":cfg_json(&cfg),"matcher":format!("{:?}",mk),"strategy":format!("{:?}",strat),
                                               "n":n,"input":esc(input),"printed_line_numbers":got,"expected_line_numbers":want}),
                                    ));
                                }
                            }
                        }
                        Err(e) => {
                            acc.disc.push((format!("max-count-error | {} | {}", cfg.show(), esc(input)), json!({"kind":"max-count","error":e})));
                        }
                    }
                }
            }
        },
        |a| {
            ptotal.printer_runs += a.printer_runs;
            ptotal.disc.extend(a.disc);
        },
    );
    for (k, v) in total.disc.iter().chain(ptotal.disc.iter()) {
        verdict.discrepancy(None, k, v.clone());
    }
    for kind in ["begin", "matched", "context", "context_break", "binary_data"] {
        if total.kinds.get(kind).copied().unwrap_or(0) == 0 {
            machinery_error(&format!("C16: event kind {} was never a crash point ({:?})", kind, total.kinds));
        }
    }
    if total.interrupted_absorbed == 0 || total.interrupted_surfaced == 0 {
        machinery_error("C16: Interrupted was never absorbed / never surfaced");
    }
    ev.set("evaluations", total.runs + ptotal.printer_runs);
    ev.set("distinct_nontrivial", total.stop_points + total.fail_points + total.read_faults);
    ev.set("exhaustive", true);
    ev.set("cases", ncases);
    ev.set("inputs", inputs.len());
    ev.set("nontrivial_uninterrupted_runs", total.nontrivial);
    ev.set("stop_points", total.stop_points);
    ev.set("sink_error_points", total.fail_points);
    ev.set("read_fault_points", total.read_faults);
    ev.set("crash_points_by_event_kind", json!(total.kinds));
    ev.set("interrupted_absorbed_by_retry", total.interrupted_absorbed);
    ev.set("interrupted_surfaced_as_error", total.interrupted_surfaced);
    ev.set("max_count_printer_runs", ptotal.printer_runs);
    ev.set(
        "rule",
        format!(
            "inputs: every byte string over {{m,x,\\n,\\0}} up to length {}; cases: (A,B) in {:?}, passthru, invert, stop_on_nonmatch, binary detection none/quit/convert, matcher fast/candidate/slow/grep-regex/multi-line regex m(?:\\nm)?, strategies slice and incremental reader (capacity 1 and 3). For each (case, input): run uninterrupted (L); then for EVERY event index k answer stop and answer error; for EVERY read index j fail the read and interrupt the read. Oracle: stop => delivered == L[..=k], then exactly one finish, Ok; sink error => delivered == L[..=k], no finish, the same error; read error => a prefix of L, no finish, the reader's error; Interrupted => either that or the full L with one finish. Plus -m N through the standard printer for every N <= matches+1: printed line-number set == first N matching lines + their context windows, no line twice. distinct_nontrivial = number of distinct (case, input, crash point) triples explored.",
            maxlen, ctxs
        ),
    );
    ev.set("samples", json!([{"case": format!("{:?}", cases[ncases / 2]), "input": "m\\n\\nm", "crash_points": "every k in 0..len(L), every read index j"}]));
    ev.assume("inputs above the length bound behave like the enumerated shapes");
    verdict.finish(ev)
}

fn replay(path: &str) -> ! {
    let text = std::fs::read_to_string(path).unwrap_or_else(|_| machinery_error("cannot read replay"));
    let v: serde_json::Value = serde_json::from_str(&text).unwrap_or_else(|_| machinery_error("bad replay"));
    let input = unesc(v["input"].as_str().unwrap_or(""));
    let cfg = cfg_from_json(&v["cfg"]);
    let mk = match v["matcher"].as_str().unwrap_or("") {
        "Regex" => M16::Regex,
        "RegexMl" => M16::RegexMl,
        "Toy(Fast)" => M16::Toy(LinePath::Fast),
        "Toy(Candidate)" => M16::Toy(LinePath::Candidate),
        _ => M16::Toy(LinePath::Slow),
    };
    let strat = parse_strat(v["strategy"].as_str().unwrap_or("Slice"));
    if v["kind"] == "max-count" {
        let n = v["n"].as_u64().unwrap_or(1);
        let got = printer_lines(&input, &cfg, mk, strat, Some(n));
        let want = max_count_model(&input, &cfg, n);
        println!("input {} -m {}: printed {:?}, expected {:?}", esc(&input), n, got, want);
        let ok = got.map_or(false, |mut g| {
            g.sort();
            let d = g.windows(2).any(|w| w[0] == w[1]);
            g.dedup();
            g == want && !d
        });
        std::process::exit(if ok { 0 } else { 1 });
    }
    let bin = match v["binary"].as_str().unwrap_or("None") {
        "Quit" => Bin::Quit,
        "Convert" => Bin::Convert,
        _ => Bin::None,
    };
    let c = Case { cfg, bin, mk, strat };
    let m = matcher_for(&c);
    let mut acc = Acc::default();
    let mut per = 0;
    judge_all(&c, &m, &input, &mut acc, &mut per);
    for (k, v) in acc.disc.iter() {
        println!("{}\n  delivered:     {}\n  uninterrupted: {}\n  at: {}", k, v["delivered"], v["uninterrupted"], v["at"]);
    }
    std::process::exit(if acc.disc.is_empty() { 0 } else { 1 })
}
