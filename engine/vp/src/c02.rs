//! C02 — results do not depend on how the bytes reach the searcher.
//! E1 (differential): the Sink event stream of `search_slice` is the
//! reference; the incremental reader under every history (roll-buffer
//! capacity, every composition of the input length as read sizes, heap limits
//! around "just sufficient"), memory maps and files must deliver the same.

use std::{collections::BTreeMap, io::Write};

use grep_searcher::MmapChoice;
use serde_json::json;

use crate::{c03::*, core::*, srch::*};

/// All compositions of n (sequences of positive integers summing to n).
fn compositions(n: usize) -> Vec<Vec<usize>> {
    if n == 0 {
        return vec![vec![]];
    }
    let mut out = vec![];
    for mask in 0..(1u32 << (n - 1)) {
        let mut parts = vec![];
        let mut cur = 1;
        for i in 0..n - 1 {
            if mask >> i & 1 == 1 {
                parts.push(cur);
                cur = 1;
            } else {
                cur += 1;
            }
        }
        parts.push(cur);
        out.push(parts);
    }
    out
}

#[derive(Default)]
struct Acc {
    runs: u64,
    nontrivial: u64,
    rolled_with_context: u64,
    grew: u64,
    heap_errors: u64,
    heap_ok: u64,
    mmap_runs: u64,
    interrupted_runs: u64,
    ml_request_pairs: u64,
    disc: Vec<(String, serde_json::Value)>,
}

fn reader_run(
    cfg: &Cfg,
    mk: Mk,
    m: &AnyMatcher,
    cap: Option<usize>,
    heap: Option<usize>,
    input: &[u8],
    sizes: &[usize],
    fault: Option<(usize, ReadFault)>,
) -> (Vec<Ev>, Option<String>, usize) {
    let _ = mk;
    let mut b = cfg.builder();
    if let Some(c) = cap {
        b.verif_buffer_capacity(Some(c));
    }
    if let Some(h) = heap {
        b.heap_limit(Some(h));
    }
    let mut searcher = b.build();
    let mut rec = Rec::new();
    let mut rdr = FragReader::new(input, sizes, 64);
    rdr.fault = fault;
    let res = match m {
        AnyMatcher::Toy(t) => searcher.search_reader(t, &mut rdr, &mut rec),
        AnyMatcher::Regex(r) => searcher.search_reader(r, &mut rdr, &mut rec),
    };
    (rec.events, res.err().map(|e| e.to_string()), rdr.reads)
}

pub fn run(args: &Args) -> ! {
    if let Some(r) = &args.replay {
        replay(r);
    }
    let tier = args.tier;
    let mut ev = Evidence::new(args, "exploration");
    let mut verdict = Verdict::new("C02");
    let scratch = Scratch::new("c02");
    // (term, maxlen)
    let lens: Vec<(Term, usize)> = match tier {
        Tier::Quick => vec![(Term::Lf, 5), (Term::Crlf, 4), (Term::Nul, 4)],
        Tier::Thorough => vec![(Term::Lf, 7), (Term::Crlf, 6), (Term::Nul, 6)],
    };
    let caps: Vec<usize> = vec![1, 2, 3, 5, 8];
    // work items: (term index, cfg, matcher)
    let mut items: Vec<(Cfg, Mk)> = vec![];
    let mut input_sets: BTreeMap<Term, Vec<Vec<u8>>> = BTreeMap::new();
    for &(term, maxlen) in lens.iter() {
        let mut ins = inputs(term, maxlen);
        // one family of long inputs (>= 3 x the largest capacity) built from
        // the same lines
        for pat in [&b"m\nx\n"[..], b"xx\nm\n\n", b"x\nx\nm", b"mmmmmmmmmmmmmmmmmmmmmmmmmmmmmm\nx"] {
            let mut v: Vec<u8> = pat.iter().map(|&b| if b == b'\n' { term.byte() } else { b }).collect();
            while v.len() < 30 {
                let c = v.clone();
                v.extend(c);
            }
            ins.push(v);
        }
        input_sets.insert(term, ins);
        for cfg in all_cfgs(term, 2) {
            for mk in [Mk::Toy(LinePath::Fast), Mk::Toy(LinePath::Candidate), Mk::Toy(LinePath::Slow), Mk::Regex] {
                items.push((cfg, mk));
            }
            if term == Term::Crlf {
                items.push((cfg, Mk::RegexCr));
            }
        }
    }
    let comps: Vec<Vec<Vec<usize>>> = (0..=10).map(compositions).collect();
    let mut total = Acc::default();
    let scratch_path = scratch.path.clone();
    par_fold(
        items.len(),
        2,
        Acc::default,
        |acc, ii| {
            let (cfg, mk) = items[ii];
            let m = make_matcher(mk, cfg.term);
            let true_multiline = cfg.multi_line && mk == Mk::Toy(LinePath::Slow);
            let mut slice_searcher = build_searcher(&cfg, Strat::Slice);
            // "whether or not multi-line mode was requested": the same search
            // without the request is the reference for the request
            let mut no_ml_searcher = if cfg.multi_line && !true_multiline {
                let mut c2 = cfg;
                c2.multi_line = false;
                Some(build_searcher(&c2, Strat::Slice))
            } else {
                None
            };
            let mut per_item = 0;
            let file_path = scratch_path.join(format!("f{}", ii));
            for (idx, input) in input_sets[&cfg.term].iter().enumerate() {
                let mut refrec = Rec::new();
                let r0 = run_case(&mut slice_searcher, &m, Strat::Slice, input, &mut refrec);
                if r0.is_err() {
                    acc.disc.push((format!("slice-error | {} | {:?} | {}", cfg.show(), mk, esc(input)), json!({"kind":"slice-error"})));
                    continue;
                }
                let reference = refrec.events;
                if reference.len() > 2 {
                    acc.nontrivial += 1;
                }
                if let Some(s2) = no_ml_searcher.as_mut() {
                    let mut r2 = Rec::new();
                    let e2 = run_case(s2, &m, Strat::Slice, input, &mut r2);
                    acc.runs += 1;
                    acc.ml_request_pairs += 1;
                    if e2.is_err() || r2.events != reference {
                        if acc.disc.len() < 300 {
                            acc.disc.push((
                                format!("multi-line-request-changes-results | {} | {:?} | {}", cfg.show(), mk, esc(input)),
                                json!({"kind":"multi-line-request","cfg":cfg_json(&cfg),"matcher":format!("{:?}", mk),"input":esc(input),
                                       "with_request":show(&reference),"without_request":show(&r2.events)}),
                            ));
                        }
                    }
                }
                let mut report = |acc: &mut Acc, what: &str, got: &[Ev], err: &Option<String>, extra: serde_json::Value| {
                    if per_item < 3 && acc.disc.len() < 300 {
                        per_item += 1;
                        acc.disc.push((
                            format!("{} | {} | {:?} | {}", what, cfg.show(), mk, esc(input)),
                            json!({
                                "kind": "strategy-differs-from-slice", "what": what,
                                "cfg": cfg_json(&cfg), "matcher": format!("{:?}", mk), "input": esc(input),
                                "slice": show(&reference), "other": show(got), "error": err, "history": extra,
                            }),
                        ));
                    }
                };
                // (1) every roll-buffer capacity x every composition of the
                // input length (short inputs), or a few fixed fragmentations
                let n = input.len();
                let frag_list: Vec<Vec<usize>> = if n <= tier.pick(5, 7) {
                    comps[n].clone()
                } else {
                    vec![vec![], vec![1; n], vec![2; n], vec![3, 1, 2, 5, 1, 1, 7], vec![n - 1, 1]]
                };
                for &cap in caps.iter() {
                    for sizes in frag_list.iter() {
                        let (got, err, _) = reader_run(&cfg, mk, &m, Some(cap), None, input, sizes, None);
                        acc.runs += 1;
                        if n > cap {
                            acc.grew += 1;
                            if cfg.before > 0 || cfg.after > 0 {
                                acc.rolled_with_context += 1;
                            }
                        }
                        if err.is_some() || got != reference {
                            report(acc, "reader", &got, &err, json!({"capacity": cap, "read_sizes": sizes}));
                        }
                    }
                }
                // (2) heap limits from 1 to len + 2 (line mode only: the
                // multi-line strategy reads everything)
                if !true_multiline && idx % 3 == 0 {
                    for h in 1..=(n + 2) {
                        let (got, err, _) = reader_run(&cfg, mk, &m, None, Some(h), input, &[], None);
                        acc.runs += 1;
                        match err {
                            None => {
                                acc.heap_ok += 1;
                                if got != reference {
                                    report(acc, "reader-heap-limit", &got, &None, json!({"heap_limit": h}));
                                }
                            }
                            Some(e) => {
                                acc.heap_errors += 1;
                                // an allocation error is legal only while the
                                // limit is smaller than the input (+1 for EOF
                                // detection); what was delivered must be a
                                // prefix of the reference
                                let prefix_ok = got.len() <= reference.len() && got[..] == reference[..got.len()];
                                if h > n || !prefix_ok || !e.contains("limit") {
                                    report(acc, "reader-heap-limit-error", &got, &Some(e), json!({"heap_limit": h}));
                                }
                            }
                        }
                    }
                }
                // (3) Interrupted at every read index — only where the code
                // claims to retry it (the multi-line reader)
                if true_multiline {
                    let (_, _, reads) = reader_run(&cfg, mk, &m, Some(2), None, input, &[], None);
                    for j in 0..reads {
                        let (got, err, _) =
                            reader_run(&cfg, mk, &m, Some(2), None, input, &vec![1; n], Some((j, ReadFault::Interrupted)));
                        acc.runs += 1;
                        acc.interrupted_runs += 1;
                        if err.is_some() || got != reference {
                            report(acc, "multiline-reader-interrupted", &got, &err, json!({"interrupted_at_read": j}));
                        }
                    }
                }
                // (4) files: search_path with and without memory maps, search_file
                if idx % 7 == 0 || n >= 30 {
                    let mut f = std::fs::File::create(&file_path).unwrap_or_else(|_| machinery_error("scratch file"));
                    f.write_all(input).unwrap_or_else(|_| machinery_error("scratch write"));
                    drop(f);
                    for (name, choice) in [("path-mmap", unsafe { MmapChoice::auto() }), ("path-nommap", MmapChoice::never())] {
                        let mut b = cfg.builder();
                        b.memory_map(choice);
                        let mut s = b.build();
                        let mut rec = Rec::new();
                        let res = match &m {
                            AnyMatcher::Toy(t) => s.search_path(t, &file_path, &mut rec),
                            AnyMatcher::Regex(r) => s.search_path(r, &file_path, &mut rec),
                        };
                        acc.runs += 1;
                        acc.mmap_runs += 1;
                        let err = res.err().map(|e| e.to_string());
                        if err.is_some() || rec.events != reference {
                            report(acc, name, &rec.events, &err, json!({}));
                        }
                    }
                    let file = std::fs::File::open(&file_path).unwrap_or_else(|_| machinery_error("scratch open"));
                    let mut s = cfg.builder().build();
                    let mut rec = Rec::new();
                    let res = match &m {
                        AnyMatcher::Toy(t) => s.search_file(t, &file, &mut rec),
                        AnyMatcher::Regex(r) => s.search_file(r, &file, &mut rec),
                    };
                    acc.runs += 1;
                    let err = res.err().map(|e| e.to_string());
                    if err.is_some() || rec.events != reference {
                        report(acc, "file", &rec.events, &err, json!({}));
                    }
                }
            }
            let _ = std::fs::remove_file(&file_path);
        },
        |a| {
            total.runs += a.runs;
            total.nontrivial += a.nontrivial;
            total.rolled_with_context += a.rolled_with_context;
            total.grew += a.grew;
            total.ml_request_pairs += a.ml_request_pairs;
            total.heap_errors += a.heap_errors;
            total.heap_ok += a.heap_ok;
            total.mmap_runs += a.mmap_runs;
            total.interrupted_runs += a.interrupted_runs;
            total.disc.extend(a.disc);
        },
    );
    for (key, v) in total.disc.iter() {
        verdict.discrepancy(None, key, v.clone());
    }
    // ---- the request as the command line makes it: `rg --crlf P` builds a
    // CRLF line matcher, `rg -U --crlf P` builds a multi-line matcher without
    // a line terminator; for a P that cannot match `\n` both must deliver the
    // same events ---------------------------------------------------------
    {
        use grep_regex::RegexMatcherBuilder;
        // (none of them can match `\r` either: a class that contains `\r` is
        // narrowed by the CRLF line matcher by documented design)
        let pats = ["\\B", "m", "m*", "\\Bx", "x\\B", "x\\b", "\\b", "m$", "^x?$", "\\Bm*\\B", "(?:x|\\B)$"];
        let ins = inputs(Term::Crlf, tier.pick(5, 6));
        let mut pairs = 0u64;
        for pat in pats {
            let mut lb = RegexMatcherBuilder::new();
            lb.line_terminator(Some(b'\n')).crlf(true);
            let mut mb = RegexMatcherBuilder::new();
            mb.multi_line(true).crlf(true).line_terminator(None);
            let (Ok(lm), Ok(mm)) = (lb.build(pat), mb.build(pat)) else { continue };
            for invert in [false, true] {
                for ctx in [0usize, 1] {
                    let base = Cfg { term: Term::Crlf, invert, after: ctx, before: ctx, passthru: false, line_number: true, stop_on_nonmatch: false, multi_line: false };
                    let mut with = base;
                    with.multi_line = true;
                    let mut s_line = build_searcher(&base, Strat::Slice);
                    let mut s_ml = build_searcher(&with, Strat::Slice);
                    if s_ml.multi_line_with_matcher(&mm) {
                        continue; // P can match a line terminator: a real multi-line search
                    }
                    for input in ins.iter() {
                        let mut r1 = Rec::new();
                        let mut r2 = Rec::new();
                        let e1 = s_line.search_slice(&lm, input, &mut r1);
                        let e2 = s_ml.search_slice(&mm, input, &mut r2);
                        pairs += 1;
                        total.runs += 2;
                        if e1.is_err() || e2.is_err() || r1.events != r2.events {
                            verdict.discrepancy(
                                None,
                                &format!("command-line multi-line request changes results | {} | {} | {}", base.show(), pat, esc(input)),
                                json!({"kind":"cli-multi-line-request","pattern":pat,"cfg":cfg_json(&base),"input":esc(input),
                                       "without_request":show(&r1.events),"with_request":show(&r2.events)}),
                            );
                        }
                    }
                }
            }
        }
        total.ml_request_pairs += pairs;
    }
    // ---- patterns with text anchors (\A, \z): whatever they are taken to
    // mean in a line-oriented search, the result must not depend on how the
    // bytes arrive. Differential only: slice against the reader under every
    // capacity and fragmentation, for LF, CRLF and NUL terminators ----------
    {
        use grep_regex::RegexMatcherBuilder;
        // (the last five have no literal a candidate-line search could use)
        let pats = ["m\\z|\\Ax", "\\Am", "m\\z", "\\Ax|m\\z|xm", "(?-m)^m|x$", "\\A.", "\\A\\w+", "\\A[^-]", "(?-m)^[a-z]+", "\\A[l-y]+\\b"];
        let mut runs = 0u64;
        for (term, maxlen) in [(Term::Lf, 5usize), (Term::Crlf, 4), (Term::Nul, 5)] {
            let ins = inputs(term, tier.pick(maxlen, maxlen + 1));
            for pat in pats {
                let mut b = RegexMatcherBuilder::new();
                b.multi_line(true);
                match term {
                    Term::Lf => {
                        b.line_terminator(Some(b'\n'));
                    }
                    Term::Crlf => {
                        b.line_terminator(Some(b'\n')).crlf(true);
                    }
                    Term::Nul => {
                        b.line_terminator(Some(0));
                    }
                }
                let Ok(m) = b.build(pat) else { continue };
                for invert in [false, true] {
                    let cfg = Cfg { term, invert, after: 0, before: 0, passthru: false, line_number: true, stop_on_nonmatch: false, multi_line: false };
                    let mut slice_s = build_searcher(&cfg, Strat::Slice);
                    for input in ins.iter() {
                        let mut r0 = Rec::new();
                        if slice_s.search_slice(&m, input, &mut r0).is_err() {
                            continue;
                        }
                        for cap in [1usize, 2, 3, 8] {
                            for frag in [1usize, 2, 64] {
                                let mut sb = cfg.builder();
                                sb.verif_buffer_capacity(Some(cap));
                                let mut s = sb.build();
                                let mut r1 = Rec::new();
                                let sizes: [usize; 0] = [];
                                let e = s.search_reader(&m, FragReader::new(input, &sizes, frag), &mut r1);
                                runs += 1;
                                if e.is_err() || r1.events != r0.events {
                                    verdict.discrepancy(
                                        None,
                                        &format!("text-anchor pattern depends on how the bytes arrive | {} | {} | {}", cfg.show(), pat, esc(input)),
                                        json!({"kind":"text-anchor-strategy","pattern":pat,"cfg":cfg_json(&cfg),"input":esc(input),"capacity":cap,"read_size":frag,
                                               "slice":show(&r0.events),"reader":show(&r1.events)}),
                                    );
                                    break;
                                }
                            }
                        }
                    }
                }
            }
        }
        total.runs += runs;
    }
    if total.grew == 0 || total.rolled_with_context == 0 || total.heap_errors == 0 || total.heap_ok == 0 || total.mmap_runs == 0 || total.interrupted_runs == 0 {
        machinery_error("C02: a mandatory coverage counter is zero");
    }
    ev.set("evaluations", total.runs);
    ev.set("distinct_nontrivial", total.nontrivial);
    ev.set("exhaustive", true);
    ev.set("configurations_x_matchers", items.len());
    ev.set("inputs_per_terminator", json!(input_sets.iter().map(|(k, v)| (format!("{:?}", k), v.len())).collect::<BTreeMap<_, _>>()));
    ev.set("reader_runs_where_input_exceeds_capacity", total.grew);
    ev.set("pairs_with_and_without_the_multi_line_request", total.ml_request_pairs);
    ev.set("reader_runs_rolling_with_context", total.rolled_with_context);
    ev.set("heap_limit_runs_ok", total.heap_ok);
    ev.set("heap_limit_runs_alloc_error", total.heap_errors);
    ev.set("file_and_mmap_runs", total.mmap_runs);
    ev.set("multiline_reader_runs_with_interrupted", total.interrupted_runs);
    ev.set(
        "rule",
        format!(
            "reference = the Sink event stream (begin, matched/context with bytes, line number, absolute offset, context_break, finish byte count) of search_slice. Compared against: search_reader with roll-buffer capacity in {:?} (hook) x EVERY composition of the input length as the sequence of read() return sizes (inputs up to length {}; five fixed fragmentations for the long family), heap limits 1..len+2 (error allowed only while the limit is below len+1, delivered events must then be a prefix), Interrupted injected at every read index on the multi-line reader path, search_path with MmapChoice::auto and never, search_file. Inputs: every byte string over {{m,x,terminator}} (+\\r under CRLF) up to length {:?} plus four long inputs of 30-62 bytes; configurations: (A,B) in 0..2 squared, passthru, invert, line numbers, stop_on_nonmatch, LF/CRLF/NUL, multi_line requested (with matchers that cannot match the terminator: line strategy; with one that can: true multi-line strategy); matcher line paths fast/candidate/slow/grep-regex, and under CRLF a grep-regex matcher built as `rg -U --crlf` builds it for a pattern that can match \\r but not \\n; every search with the multi-line request on a matcher that cannot match the terminator is also compared with the same search without the request; and under CRLF, for eleven patterns that can match neither \\n nor \\r (\\B, \\b, m*, m$, ...), the search as `rg --crlf P` builds it against the search as `rg -U --crlf P` builds it, on every input up to the bound; and ten patterns with text anchors (five of them without any literal) (\\A, \\z, non-multi-line ^ $) under LF / CRLF / NUL: slice against the reader for capacities 1,2,3,8 x read sizes 1,2,64 (whatever such anchors mean in line mode, the result may not depend on how the bytes arrive). Binary detection off. distinct_nontrivial = distinct (configuration, matcher, input) triples whose reference delivers at least one line.",
            caps, tier.pick(5, 7), lens
        ),
    );
    ev.set(
        "samples",
        json!([{"cfg": items[items.len() / 2].0.show(), "matcher": format!("{:?}", items[items.len() / 2].1), "input": "x\\nm\\nx", "capacity": 1, "read_sizes": [2, 1, 1, 1]}]),
    );
    ev.assume("inputs above the length bound and buffer capacities above 8 behave like the enumerated shapes");
    drop(scratch);
    verdict.finish(ev)
}

fn replay(path: &str) -> ! {
    let text = std::fs::read_to_string(path).unwrap_or_else(|_| machinery_error("cannot read replay"));
    let v: serde_json::Value = serde_json::from_str(&text).unwrap_or_else(|_| machinery_error("bad replay"));
    let cfg = cfg_from_json(&v["cfg"]);
    let mk = parse_mk(v["matcher"].as_str().unwrap_or("Regex"));
    let input = unesc(v["input"].as_str().unwrap_or(""));
    let m = make_matcher(mk, cfg.term);
    let mut s = build_searcher(&cfg, Strat::Slice);
    let mut refrec = Rec::new();
    let _ = run_case(&mut s, &m, Strat::Slice, &input, &mut refrec);
    println!("config: {} {:?}\ninput:  {}\nslice:  {}", cfg.show(), mk, esc(&input), show(&refrec.events));
    let h = &v["history"];
    let sizes: Vec<usize> = h["read_sizes"].as_array().map(|a| a.iter().map(|x| x.as_u64().unwrap() as usize).collect()).unwrap_or_default();
    let cap = h["capacity"].as_u64().map(|c| c as usize);
    let heap = h["heap_limit"].as_u64().map(|c| c as usize);
    let fault = h["interrupted_at_read"].as_u64().map(|j| (j as usize, ReadFault::Interrupted));
    let sz = if fault.is_some() { vec![1; input.len()] } else { sizes };
    let (got, err, _) = reader_run(&cfg, mk, &m, cap.or(if fault.is_some() { Some(2) } else { None }), heap, &input, &sz, fault);
    println!("{}: {} ({:?})", v["what"].as_str().unwrap_or("reader"), show(&got), err);
    std::process::exit(if err.is_none() && got == refrec.events { 0 } else { 1 })
}
