//! C19 — replacement output equals the regex library's replace-all of each
//! matching line. E1 in two layers: (1) interpolation of every replacement
//! template over a token grammar against `regex::bytes::Captures::expand`;
//! (2) the standard printer with a replacement against
//! `regex::bytes::Regex::replace_all` per line (and per match under -o).

use std::collections::BTreeMap;

use grep_matcher::{Captures, Matcher};
use serde_json::{json, Value};

use crate::{core::*, prn::*, srch::split_lines};

const TEMPLATE_TOKENS: &[&str] = &[
    "x", "$", "$$", "$0", "$1", "$2", "$3", "${1}", "${n}", "$n", "${", "}", "$1x", "${1}x", "$_", "${2", " ", "${}", "$-",
];

/// (pattern, has a group named n)
const PATTERNS: &[&str] = &[
    "a", "(a)", "(a)(b)", "(a)|(b)", "(a)?b", "(a)*", "(?P<n>a)", "(?P<n>a)|b", "((a)b)", "(a|)(b|)", "(a)(?P<n>b)?", "()", "(a)?", "(-)|(a)(b)?",
    "(?P<n>)a", "(\\w)(\\w)", "(\\w+)-(\\w+)", "(a)$", "^(a)", "(a)\\b", "(b)?$",
    // a look-ahead assertion right behind the match (what follows the match
    // must stay visible to the replacement pass)
    "(a)\\B", "(a+)\\B", "(-)\\b", "(a)\\B|(b)",
];

#[derive(Default)]
struct Acc {
    interpolations: u64,
    nontrivial: u64,
    printer_runs: u64,
    known: u64,
    known_by: BTreeMap<&'static str, u64>,
    disc: Vec<(Option<&'static str>, String, Value)>,
}

fn templates(maxlen: usize) -> Vec<String> {
    let n = seq_count(TEMPLATE_TOKENS.len(), maxlen);
    let mut idx = vec![];
    (0..n)
        .map(|i| {
            seq_decode(TEMPLATE_TOKENS.len(), i, &mut idx);
            idx.iter().map(|&t| TEMPLATE_TOKENS[t]).collect::<String>()
        })
        .collect()
}

/// An independent model of the regex crate's replacement syntax (regex 1.10:
/// `$$`, `$name` with the longest [_0-9A-Za-z]+ name, `${anything up to }}`,
/// numbers are group indices, unknown or unmatched groups expand to nothing,
/// a `$` that starts no reference is literal). `old_braces` is the
/// counterfactual switch of known finding `braced-reference-name-charset`:
/// a braced name must be a non-empty [_0-9A-Za-z]+ directly followed by `}`,
/// otherwise the `$` is literal text.
fn expand_model(t: &[u8], caps: &regex::bytes::Captures, re: &regex::bytes::Regex, old_braces: bool, dst: &mut Vec<u8>) {
    let is_word = |b: u8| b.is_ascii_alphanumeric() || b == b'_';
    let mut i = 0;
    let mut put = |name: &[u8], dst: &mut Vec<u8>| {
        let name = std::str::from_utf8(name).unwrap_or("\u{0}");
        let m = match name.parse::<usize>() {
            Ok(n) => caps.get(n),
            Err(_) => {
                if re.capture_names().flatten().any(|n| n == name) {
                    caps.name(name)
                } else {
                    None
                }
            }
        };
        if let Some(m) = m {
            dst.extend(m.as_bytes());
        }
    };
    while i < t.len() {
        if t[i] != b'$' {
            dst.push(t[i]);
            i += 1;
            continue;
        }
        if t.get(i + 1) == Some(&b'$') {
            dst.push(b'$');
            i += 2;
            continue;
        }
        if t.get(i + 1) == Some(&b'{') {
            let close = t[i + 2..].iter().position(|&b| b == b'}');
            match close {
                Some(k) => {
                    let name = &t[i + 2..i + 2 + k];
                    let ok_old = !name.is_empty() && name.iter().all(|&b| is_word(b));
                    if old_braces && !ok_old {
                        dst.push(b'$');
                        i += 1;
                        continue;
                    }
                    if std::str::from_utf8(name).is_err() {
                        dst.push(b'$');
                        i += 1;
                        continue;
                    }
                    put(name, dst);
                    i += 2 + k + 1;
                    continue;
                }
                None => {
                    dst.push(b'$');
                    i += 1;
                    continue;
                }
            }
        }
        let mut j = i + 1;
        while j < t.len() && is_word(t[j]) {
            j += 1;
        }
        if j == i + 1 {
            dst.push(b'$');
            i += 1;
            continue;
        }
        put(&t[i + 1..j], dst);
        i = j;
    }
}

/// The counterfactual switch of finding `braced-reference-name-charset`
/// (fixed): a braced reference whose name has a character outside
/// [_0-9A-Za-z] is literal text. Kept only to label a regression precisely.
fn has_odd_braced_name(t: &str) -> bool {
    let b = t.as_bytes();
    let mut i = 0;
    while i + 1 < b.len() {
        if b[i] == b'$' && b[i + 1] == b'{' {
            if let Some(end) = b[i + 2..].iter().position(|&c| c == b'}') {
                let name = &b[i + 2..i + 2 + end];
                if name.is_empty() || name.iter().any(|c| !(c.is_ascii_alphanumeric() || *c == b'_')) {
                    return true;
                }
            }
        }
        i += 1;
    }
    false
}

#[derive(Clone, Copy, Debug, PartialEq)]
enum V {
    Plain,
    Only,
    Crlf,
    Column,
    InvertCtx,
    MultiLine,
    /// --crlf on inputs that mix `\r\n` and bare `\n` terminators
    CrlfMixed,
    /// -U --crlf with patterns that cannot match `\n` (searched line by line)
    MlCrlf,
    /// -U -o: one record per match over the whole input
    MlOnly,
}

/// -U -o -r: exactly the expansions, one record per match. `skip_empty` is the
/// counterfactual switch of known finding
/// `multiline-only-matching-skips-empty-expansions` (the multi-line
/// only-matching printer walks the lines of the replaced text and prints the
/// non-empty pieces of each expansion), `swallow` that of
/// `replacement-ending-in-newline-swallows-terminator`.
fn reference_ml_only(re: &regex::bytes::Regex, input: &[u8], swallow: bool, skip_empty: bool, expand: &dyn Fn(&regex::bytes::Captures, &mut Vec<u8>)) -> Vec<u8> {
    let mut want = vec![];
    let mut pos = 0;
    while pos <= input.len() {
        let Some(c) = re.captures_at(input, pos) else { break };
        let g = c.get(0).unwrap();
        pos = if g.end() == g.start() { g.end() + 1 } else { g.end() };
        let mut e = vec![];
        expand(&c, &mut e);
        if skip_empty {
            for piece in e.split_inclusive(|&b| b == b'\n') {
                let body = piece.strip_suffix(b"\n").unwrap_or(piece);
                if !body.is_empty() {
                    want.extend(body);
                    want.push(b'\n');
                }
            }
        } else {
            let ends_nl = e.last() == Some(&b'\n');
            want.extend(&e);
            if !(swallow && ends_nl) {
                want.push(b'\n');
            }
        }
    }
    want
}

/// What the standard printer should print for `input` (see the rule text);
/// `expand` turns one match into its replacement text.
fn reference_output(v: V, re: &regex::bytes::Regex, f: &PFlags, input: &[u8], swallow: bool, expand: &dyn Fn(&regex::bytes::Captures, &mut Vec<u8>)) -> Vec<u8> {
    reference_output2(v, re, f, input, swallow, false, expand)
}

/// `crlf_rewrite`: counterfactual switch of known finding
/// `replacement-rewrites-bare-lf-terminator-under-crlf`.
fn reference_output2(v: V, re: &regex::bytes::Regex, f: &PFlags, input: &[u8], swallow: bool, crlf_rewrite: bool, expand: &dyn Fn(&regex::bytes::Captures, &mut Vec<u8>)) -> Vec<u8> {
        // reference
        let lines = split_lines(&input, b'\n');
        let mut want: Vec<u8> = vec![];
        if v == V::MlOnly {
            return reference_ml_only(re, input, swallow, false, expand);
        }
        if v == V::MultiLine {
            // matches over the whole input; hit lines; replaced text of
            // each maximal run of hit lines, unmatched text intact
            let mut ms = vec![];
            let mut pos = 0;
            while pos <= input.len() {
                let Some(c) = re.captures_at(&input, pos) else { break };
                let g = c.get(0).unwrap();
                ms.push((g.start(), g.end(), {
                    let mut e = vec![];
                    expand(&c, &mut e);
                    e
                }));
                pos = if g.end() == g.start() { g.end() + 1 } else { g.end() };
            }
            let hit = |s: usize, e: usize| {
                ms.iter().any(|&(a, b, _)| if a == b { (s <= a && a < e) || (a == e && e == input.len() && input.last() != Some(&b'\n')) } else { a < e && s < b })
            };
            let mut i = 0;
            while i < lines.len() {
                if !hit(lines[i].0, lines[i].1) {
                    i += 1;
                    continue;
                }
                let start = lines[i].0;
                let mut j = i;
                while j + 1 < lines.len() && hit(lines[j + 1].0, lines[j + 1].1) {
                    j += 1;
                }
                let end = lines[j].1;
                let mut last = start;
                let before = want.len();
                for (a, b, e) in ms.iter() {
                    if *a >= start && (*a < end || (*a == end && end == input.len() && input.last() != Some(&b'\n'))) && *a >= last {
                        want.extend(&input[last..*a]);
                        want.extend(e);
                        last = (*b).min(end).max(last);
                    }
                }
                want.extend(&input[last.min(end)..end]);
                if want.len() > before && want.last() != Some(&b'\n') {
                    want.push(b'\n');
                }
                i = j + 1;
            }
            // the searcher only uses the multi-line strategy when the
            // matcher may match \n; all patterns of this variant can
        } else {
            let hits: Vec<bool> = lines.iter().map(|&(s, e)| re.is_match(crate::srch::strip(&input[s..e], if f.crlf { crate::srch::Term::Crlf } else { crate::srch::Term::Lf })) != f.invert).collect();
            let mut last_printed: Option<usize> = None;
            for (i, &(s, e)) in lines.iter().enumerate() {
                let raw = &input[s..e];
                let term_len = if raw.ends_with(b"\r\n") && f.crlf { 2 } else if raw.ends_with(b"\n") { 1 } else { 0 };
                let body = &raw[..raw.len() - term_len];
                let is_ctx = !hits[i] && v == V::InvertCtx && ((i > 0 && hits[i - 1]) || (i + 1 < lines.len() && hits[i + 1]));
                if !hits[i] && !is_ctx {
                    continue;
                }
                if v == V::InvertCtx {
                    if let Some(lp) = last_printed {
                        if lp + 1 < i {
                            want.extend(b"--\n");
                        }
                    }
                }
                last_printed = Some(i);
                let sep = if hits[i] { b':' } else { b'-' };
                if v == V::Only && !f.invert {
                    for c in re.captures_iter(body) {
                        want.extend(format!("{}:", i + 1).bytes());
                        let mut ex = vec![];
                        expand(&c, &mut ex);
                        let ends_nl = ex.last() == Some(&b'\n');
                        want.extend(ex);
                        if !(swallow && ends_nl) {
                            want.push(b'\n');
                        }
                    }
                    continue;
                }
                want.extend(format!("{}{}", i + 1, sep as char).bytes());
                if v == V::Column && hits[i] {
                    let col = re.find(body).map_or(1, |m| m.start() + 1);
                    want.extend(format!("{}:", col).bytes());
                }
                // lines that contain a match are replaced — also when
                // they are printed as context of an inverted search;
                // lines without a match are never altered
                // replace-all: unmatched text intact, each match expanded
                let mut last = 0;
                let mut replaced_any = false;
                for c in re.captures_iter(body) {
                    let g = c.get(0).unwrap();
                    want.extend(&body[last..g.start()]);
                    let mut ex = vec![];
                    expand(&c, &mut ex);
                    want.extend(ex);
                    last = g.end();
                    replaced_any = true;
                }
                want.extend(&body[last..]);
                let replaced_ends_with_newline = want.last() == Some(&b'\n');
                if crlf_rewrite && replaced_any && f.crlf && term_len == 1 && !replaced_ends_with_newline {
                    want.extend(b"\r\n");
                } else {
                    want.extend(&raw[raw.len() - term_len..]);
                }
                // an unterminated last line gets a terminator for display,
                // unless the printed text already ends with one
                if term_len == 0 && want.last() != Some(&b'\n') {
                    if f.crlf {
                        want.push(b'\r');
                    }
                    want.push(b'\n');
                } else if term_len > 0 && swallow && replaced_ends_with_newline {
                    // counterfactual switch of known finding
                    // `replacement-ending-in-newline-swallows-terminator`
                    want.truncate(want.len() - term_len);
                }
            }
        }
    want
}

pub fn run(args: &Args) -> ! {
    if let Some(r) = &args.replay {
        replay(r);
    }
    let tier = args.tier;
    let mut ev = Evidence::new(args, "exploration");
    let mut verdict = Verdict::new("C19");
    // ---- layer 1: interpolation ---------------------------------------------
    let tmpls = templates(tier.pick(3, 4));
    let haystacks: [&[u8]; 6] = [b"a", b"ab", b"b", b"a-b", b"-", b"aab"];
    let f0 = PFlags::default();
    let mut total = Acc::default();
    par_fold(
        tmpls.len(),
        64,
        Acc::default,
        |acc, ti| {
            let t = &tmpls[ti];
            for pat in PATTERNS {
                let Ok(m) = build_matcher(&[pat], &f0) else { continue };
                let re = regex::bytes::RegexBuilder::new(pat).multi_line(true).build().unwrap();
                for h in haystacks.iter() {
                    let mut caps = m.new_captures().unwrap();
                    let got_match = m.captures(h, &mut caps).unwrap_or(false);
                    let rc = re.captures(h);
                    if got_match != rc.is_some() {
                        acc.disc.push((None, format!("captures | {} | {}", pat, esc(h)), json!({"kind":"captures-exist","pattern":pat,"haystack":esc(h)})));
                        continue;
                    }
                    let Some(rc) = rc else { continue };
                    acc.interpolations += 1;
                    let mut got = vec![];
                    caps.interpolate(|name| m.capture_index(name), h, t.as_bytes(), &mut got);
                    let mut want = vec![];
                    rc.expand(t.as_bytes(), &mut want);
                    if want != t.as_bytes() {
                        acc.nontrivial += 1;
                    }
                    // the model must agree with the regex crate (it is only
                    // used as the counterfactual's baseline)
                    let mut model_new = vec![];
                    expand_model(t.as_bytes(), &rc, &re, false, &mut model_new);
                    if model_new != want {
                        acc.disc.push((None, format!("model | {} | {}", t, pat), json!({"kind":"model-vs-regex","template":t,"pattern":pat,"model":esc(&model_new),"regex_crate":esc(&want)})));
                        continue;
                    }
                    if got != want && acc.disc.len() < 200 {
                        let mut model_old = vec![];
                        expand_model(t.as_bytes(), &rc, &re, true, &mut model_old);
                        let finding = if model_old == got { Some("braced-reference-name-charset") } else { None };
                        if finding.is_some() {
                            acc.known += 1;
                            if acc.known > 3 {
                                continue;
                            }
                        }
                        acc.disc.push((
                            finding,
                            format!("interpolate | {} | {} | {}", t, pat, esc(h)),
                            json!({"kind":"interpolate","template":t,"pattern":pat,"haystack":esc(h),"ripgrep":esc(&got),"regex_crate":esc(&want),
                                   "braced_name_outside_word_charset": has_odd_braced_name(t)}),
                        ));
                    }
                }
            }
        },
        |a| {
            total.interpolations += a.interpolations;
            total.nontrivial += a.nontrivial;
            total.known += a.known;
            total.disc.extend(a.disc);
        },
    );
    eprintln!("[c19] layer 1 done at {:.1}s ({} interpolations)", ev.elapsed(), total.interpolations);
    // ---- layer 2: the printer ------------------------------------------------
    let ptmpls: Vec<&str> = vec![
        "X", "", "$0", "[$0]", "$1", "$2$1", "${1}x", "$1x", "$n", "${n}-", "$$", "$$1", "$", "${", "$0$0", "a$1b", " $1 ", "${2}", "$3", "$_", "${}", "\n", "$1\n",
    ];
    let maxlen = tier.pick(4, 5);
    let al = [b'a', b'b', b'-', b'\n'];
    let nin = seq_count(al.len(), maxlen);
    let mut idx = vec![];
    let inputs: Vec<Vec<u8>> = (0..nin)
        .map(|i| {
            seq_decode(al.len(), i, &mut idx);
            idx.iter().map(|&k| al[k]).collect()
        })
        .collect();
    let variants = [V::Plain, V::Only, V::Crlf, V::Column, V::InvertCtx, V::MultiLine, V::CrlfMixed, V::MlCrlf, V::MlOnly];
    let mlpats: &[&str] = &["(a)\\n(b)?", "(a)|(\\n)", "(?s:(.)(.))", "(-)\\n"];
    let mut work = vec![];
    for v in variants.iter() {
        let plist: Vec<&str> = if *v == V::MultiLine || *v == V::MlOnly { mlpats.to_vec() } else { PATTERNS.to_vec() };
        for p in plist {
            for t in ptmpls.iter() {
                work.push((*v, p, *t));
            }
        }
    }
    let mut l2 = Acc::default();
    par_fold(
        work.len(),
        2,
        Acc::default,
        |acc, wi| {
            let (v, pat, tmpl) = work[wi];
            let mut f = PFlags::default();
            let mut so = StdOpts { line_number: true, replacement: Some(tmpl.as_bytes().to_vec()), ..Default::default() };
            match v {
                V::Only => so.only_matching = true,
                V::Crlf | V::CrlfMixed => f.crlf = true,
                V::MlCrlf => {
                    f.crlf = true;
                    f.multiline = true;
                }
                V::Column => so.column = true,
                V::InvertCtx => {
                    f.invert = true;
                    f.before = 1;
                    f.after = 1;
                }
                V::MultiLine => {
                    f.multiline = true;
                    so.line_number = false;
                }
                V::MlOnly => {
                    f.multiline = true;
                    so.line_number = false;
                    so.only_matching = true;
                }
                V::Plain => {}
            }
            let Ok(m) = build_matcher(&[pat], &f) else { return };
            if v == V::MlCrlf && build_searcher(&f, true).multi_line_with_matcher(&m) {
                // (an anchored pattern under -U --crlf is searched with the true
                // multi-line strategy, whose block output is the MultiLine
                // variant's subject)
                return;
            }
            let re = regex::bytes::RegexBuilder::new(pat).multi_line(true).crlf(f.crlf).build().unwrap();
            let mut per = 0;
            for input in inputs.iter() {
                let input: Vec<u8> = match v {
                    V::Crlf | V::MlCrlf => input.iter().flat_map(|&b| if b == b'\n' { vec![b'\r', b'\n'] } else { vec![b] }).collect(),
                    V::CrlfMixed => {
                        // every other terminator is a bare \n
                        let mut k = 0;
                        input
                            .iter()
                            .flat_map(|&b| {
                                if b == b'\n' {
                                    k += 1;
                                    if k % 2 == 0 { vec![b'\r', b'\n'] } else { vec![b'\n'] }
                                } else {
                                    vec![b]
                                }
                            })
                            .collect()
                    }
                    _ => input.clone(),
                };
                let out = run_mode(&input, &m, &f, &Mode::Standard(so.clone()), false);
                acc.printer_runs += 1;
                let want = reference_output(v, &re, &f, &input, false, &|c, d| c.expand(tmpl.as_bytes(), d));
                if out.error.is_some() || out.out != want {
                    let want_old = reference_output(v, &re, &f, &input, false, &|c, d| expand_model(tmpl.as_bytes(), c, &re, true, d));
                    let want_sw = reference_output(v, &re, &f, &input, true, &|c, d| c.expand(tmpl.as_bytes(), d));
                    let want_rw = reference_output2(v, &re, &f, &input, false, true, &|c, d| c.expand(tmpl.as_bytes(), d));
                    let want_rw_old = reference_output2(v, &re, &f, &input, false, true, &|c, d| expand_model(tmpl.as_bytes(), c, &re, true, d));
                    let want_rw_sw = reference_output2(v, &re, &f, &input, true, true, &|c, d| c.expand(tmpl.as_bytes(), d));
                    let finding = if out.error.is_none() && out.out == want_old {
                        Some("braced-reference-name-charset")
                    } else if out.error.is_none() && out.out == want_sw {
                        Some("replacement-ending-in-newline-swallows-terminator")
                    } else if out.error.is_none() && (out.out == want_rw || out.out == want_rw_old || out.out == want_rw_sw) {
                        Some("replacement-rewrites-bare-lf-terminator-under-crlf")
                    } else if out.error.is_none()
                        && v == V::MlOnly
                        && (out.out == reference_ml_only(&re, &input, false, true, &|c, d| c.expand(tmpl.as_bytes(), d))
                            || out.out == reference_ml_only(&re, &input, false, true, &|c, d| expand_model(tmpl.as_bytes(), c, &re, true, d)))
                    {
                        Some("multiline-only-matching-skips-empty-expansions")
                    } else {
                        None
                    };
                    if let Some(fid) = finding {
                        // (a few examples per finding and thread are enough)
                        acc.known += 1;
                        let n = acc.known_by.entry(fid).or_insert(0);
                        *n += 1;
                        if *n > 3 {
                            continue;
                        }
                    }
                    if (per < 2 || finding.is_some()) && acc.disc.len() < 200 {
                        per += 1;
                        acc.disc.push((
                            finding,
                            format!("printer | {:?} | {} | {} | {}", v, pat, esc(tmpl.as_bytes()), esc(&input)),
                            json!({"kind":"printer-replacement","variant":format!("{:?}",v),"pattern":pat,"template":tmpl,"input":esc(&input),
                                   "printed":esc(&out.out),"expected":esc(&want),"error":out.error}),
                        ));
                    }
                }
            }
        },
        |a| {
            l2.printer_runs += a.printer_runs;
            l2.known += a.known;
            l2.disc.extend(a.disc);
        },
    );
    // ---- look-ahead window family: in a multi-line search the printers
    // re-discover the matches on the reported lines plus a bounded look-ahead
    // window; a pattern whose tail is anchored at the end of the haystack must
    // not see the end of that window as the end of the input ---------------
    {
        let pats = ["(a)(?:\\n-{0,200}\\z)?", "a(?:\\n(?s:.){0,150}\\z)?", "(a)\\n(?:-{0,140}\\z)?", "(a)(?:\\n-*\\z)?", "(a)(?:\\n-{0,200}\\z)?|b"];
        let tails = [100usize, 126, 127, 128, 129, 130, 200, 300];
        for pat in pats {
            let pat = pat.replace("\\\\", "\\");
            let mut f = PFlags::default();
            f.multiline = true;
            let Ok(m) = build_matcher(&[pat.as_str()], &f) else { continue };
            let re = regex::bytes::RegexBuilder::new(&pat).multi_line(true).build().unwrap();
            for &n in tails.iter() {
                for after in ["\nb\n", "\n", ""] {
                    let mut input = b"a\n".to_vec();
                    input.extend(std::iter::repeat(b'-').take(n));
                    input.extend(after.replace("\\n", "\n").bytes());
                    for tmpl in ["[$0]", "$1", ""] {
                        let so = StdOpts { line_number: false, replacement: Some(tmpl.as_bytes().to_vec()), ..Default::default() };
                        let out = run_mode(&input, &m, &f, &Mode::Standard(so), false);
                        l2.printer_runs += 1;
                        let want = reference_output(V::MultiLine, &re, &f, &input, false, &|c, d| c.expand(tmpl.as_bytes(), d));
                        if out.error.is_some() || out.out != want {
                            verdict.discrepancy(
                                None,
                                &format!("printer | look-ahead window | {} | {} | a\\n + {} dashes + {}", pat, esc(tmpl.as_bytes()), n, esc(after.as_bytes())),
                                json!({"kind":"printer-replacement","variant":"look-ahead window","pattern":pat,"template":tmpl,"input":esc(&input),
                                       "printed":esc(&out.out),"expected":esc(&want),"error":out.error}),
                            );
                        }
                    }
                    // the JSON printer re-discovers matches the same way
                    let out = run_mode(&input, &m, &f, &Mode::Json, false);
                    l2.printer_runs += 1;
                    if let Some(e) = out.error {
                        verdict.discrepancy(
                            None,
                            &format!("printer | look-ahead window (JSON) | {} | a\\n + {} dashes + {}", pat, n, esc(after.as_bytes())),
                            json!({"kind":"json-printer-error","pattern":pat,"input":esc(&input),"error":e}),
                        );
                    }
                }
            }
        }
    }
    for (f, k, v) in total.disc.iter().chain(l2.disc.iter()) {
        verdict.discrepancy(*f, k, v.clone());
    }
    if total.nontrivial == 0 || l2.printer_runs == 0 {
        machinery_error("C19: a mandatory coverage counter is zero");
    }
    ev.set("evaluations", total.interpolations + l2.printer_runs);
    ev.set("distinct_nontrivial", total.nontrivial);
    ev.set("exhaustive", true);
    ev.set("templates", tmpls.len());
    ev.set("interpolations", total.interpolations);
    ev.set("printer_runs", l2.printer_runs);
    ev.set(
        "rule",
        format!(
            "layer 1: every replacement template that is a token string of length <= {} over {:?} ({} templates) x {} patterns with optional / nested / named / empty-matching groups x 6 haystacks: Captures::interpolate == regex::bytes::Captures::expand (regex 1.10.6). layer 2: the standard printer with -r for {} templates x the same patterns x every input over {{a,b,-,\\n}} up to length {} x {{plain, -o, --crlf, --crlf on inputs mixing \\r\\n and bare \\n, -U --crlf (patterns that cannot match \\n), --column, -v -C1, -U (4 line-crossing patterns, no line numbers)}}: printed output == per-line regex::bytes::Regex::replace_all with the terminator held aside (per match expansion under -o; lines without a match unaltered). Look-ahead window family: five -U patterns whose optional tail is anchored with \\z x inputs 'a\\n' + 100..300 dashes (around the printers' 128-byte look-ahead window) x three templates, and the JSON printer on the same searches (must not fail). distinct_nontrivial = interpolations whose expansion differs from the template text.",
            tier.pick(3, 4), TEMPLATE_TOKENS, tmpls.len(), PATTERNS.len(), ptmpls.len(), maxlen
        ),
    );
    ev.set("samples", json!([{"template": "${1}x$$", "pattern": "(a)?b", "haystack": "ab"}, {"printer": {"pattern": "(a)$", "template": "[$0]", "input": "a\\nba", "variant": "Plain"}}]));
    ev.assume("the regex crate (version in Cargo.lock) is the specification of the replacement syntax");
    let _ = BTreeMap::<u8, u8>::new();
    verdict.finish(ev)
}

fn replay(path: &str) -> ! {
    let text = std::fs::read_to_string(path).unwrap_or_else(|_| machinery_error("cannot read replay"));
    let v: Value = serde_json::from_str(&text).unwrap_or_else(|_| machinery_error("bad replay"));
    if v["kind"] == "interpolate" {
        let (t, pat, h) = (v["template"].as_str().unwrap_or(""), v["pattern"].as_str().unwrap_or(""), unesc(v["haystack"].as_str().unwrap_or("")));
        let m = build_matcher(&[pat], &PFlags::default()).unwrap();
        let re = regex::bytes::RegexBuilder::new(pat).multi_line(true).build().unwrap();
        let mut caps = m.new_captures().unwrap();
        m.captures(&h, &mut caps).unwrap();
        let mut got = vec![];
        caps.interpolate(|name| m.capture_index(name), &h, t.as_bytes(), &mut got);
        let mut want = vec![];
        re.captures(&h).unwrap().expand(t.as_bytes(), &mut want);
        println!("template {:?} pattern {:?} haystack {}: ripgrep {} regex crate {}", t, pat, esc(&h), esc(&got), esc(&want));
        std::process::exit(if got == want { 0 } else { 1 })
    }
    println!("printer replay: pattern {} template {} input {} variant {} -> printed {} expected {}", v["pattern"], v["template"], v["input"], v["variant"], v["printed"], v["expected"]);
    std::process::exit(2)
}
