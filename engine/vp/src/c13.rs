//! C13 — multi-line search reports exactly the lines covered by the
//! pattern's matches. E1: every pattern over a token grammar x every input up
//! to a length bound x invert x context x CRLF/dotall x strategy, against the
//! reference of DESIGN.md A.5 (regex crate over the WHOLE input).

use std::collections::BTreeMap;

use grep_regex::{RegexMatcher, RegexMatcherBuilder};
use grep_searcher::MmapChoice;
use serde_json::json;

use crate::{c03::cfg_json, core::*, srch::*};

const TOKENS: &[&str] = &["a", "b", "\\n", "^", "$", "\\b", "\\B", ".", "(?s:.)", "a*", "b?", "|", "-"];

#[derive(Clone, Copy, Debug, PartialEq, Eq, Hash, PartialOrd, Ord)]
struct Mode {
    crlf: bool,
    dotall: bool,
    /// 0: the pattern as is; 1: -x (whole line); 2: -w (word)
    wrap: u8,
}

fn build_matcher(pat: &str, mode: Mode) -> Option<RegexMatcher> {
    let mut b = RegexMatcherBuilder::new();
    b.multi_line(true).unicode(true).octal(false);
    b.dot_matches_new_line(mode.dotall);
    if mode.crlf {
        b.crlf(true).line_terminator(None);
    }
    match mode.wrap {
        1 => {
            b.whole_line(true);
        }
        2 => {
            b.word(true);
        }
        _ => {}
    }
    b.build(pat).ok()
}

fn build_reference(pat: &str, mode: Mode) -> Option<regex::bytes::Regex> {
    // -x and -w as the flag documentation defines them
    let wrapped = match mode.wrap {
        1 => format!("^(?:{})$", pat),
        2 => format!(r"\b{{start-half}}(?:{})\b{{end-half}}", pat),
        _ => pat.to_string(),
    };
    // (the pattern itself must be valid on its own)
    regex::bytes::RegexBuilder::new(pat).multi_line(true).crlf(mode.crlf).build().ok()?;
    regex::bytes::RegexBuilder::new(&wrapped)
        .multi_line(true)
        .dot_matches_new_line(mode.dotall)
        .crlf(mode.crlf)
        .unicode(true)
        .build()
        .ok()
}

/// Lines (index) overlapped by the successive matches, per DESIGN.md A.5.
/// `resume_on_slice` is the counterfactual switch of the (fixed) finding
/// "search resumes on a slice of the haystack"; `inverted_resume_at_line_end`
/// the switch of finding `inverted-multiline-resumes-at-line-end`.
fn reference_hits(re: &regex::bytes::Regex, input: &[u8], lines: &[(usize, usize)], line_resume: bool) -> Vec<bool> {
    reference_hits_term(re, input, lines, line_resume, b'\n')
}

fn reference_hits_term(re: &regex::bytes::Regex, input: &[u8], lines: &[(usize, usize)], line_resume: bool, term: u8) -> Vec<bool> {
    let mut hits = vec![false; lines.len()];
    let mut pos = 0usize;
    while pos <= input.len() {
        let Some(m) = re.find_at(input, pos) else { break };
        let (ms, me) = (m.start(), m.end());
        let mut last_line_end = me;
        for (i, &(s, e)) in lines.iter().enumerate() {
            let hit = if ms == me {
                (s <= ms && ms < e) || (ms == e && e == input.len() && input.last() != Some(&term))
            } else {
                ms < e && s < me
            };
            if hit {
                hits[i] = true;
                last_line_end = last_line_end.max(e);
            }
        }
        if line_resume {
            // the inverted search resumes at the end of the last matched line
            let np = last_line_end.max(me);
            pos = if np == pos || (ms == me && np == me) { np + 1 } else { np };
            if ms == me && np > me {
                pos = np;
            }
        } else {
            pos = if ms == me { me + 1 } else { me };
        }
        if pos > input.len() {
            break;
        }
    }
    hits
}

/// NUL-terminated records (`rg -U --null-data`): patterns that can match a
/// NUL (and, some of them, no `\n`) x every input over {a, b, NUL, \n} up to
/// a length bound x invert x slice / fragmented reader. Reference: the regex
/// crate over the whole input, records split at NUL; the matched (or, inverted,
/// the other) records with their numbers and offsets.
fn nul_layer(tier: Tier) -> (u64, u64, Vec<(Option<&'static str>, String, serde_json::Value)>) {
    use grep_matcher::LineTerminator;
    let pats = ["a\\x00b", "a\\x00", "\\x00b", "[\\x00]", "a[\\x00-\\x08]+b", "a(?s:.)b", "a\\x00b|b", "b\\x00?a", "(?-u:a\\x00)b?", "a\\x00\\x00", "\\x00$", "^\\x00?b"];
    let al = [b'a', b'b', 0u8, b'\n'];
    let maxlen = tier.pick(5, 7);
    let n = seq_count(al.len(), maxlen);
    let mut idx = vec![];
    let inputs: Vec<Vec<u8>> = (0..n)
        .map(|i| {
            seq_decode(al.len(), i, &mut idx);
            idx.iter().map(|&k| al[k]).collect()
        })
        .collect();
    let (mut runs, mut spanning, mut known) = (0u64, 0u64, 0u64);
    let mut disc = vec![];
    for pat in pats {
        let pat = pat.replace("\\\\", "\\");
        // the matcher as `rg -U --null-data` builds it
        let mut b = RegexMatcherBuilder::new();
        b.multi_line(true).unicode(true).octal(false);
        let Ok(m) = b.build(&pat) else { continue };
        let Ok(re) = regex::bytes::RegexBuilder::new(&pat).multi_line(true).build() else { continue };
        for invert in [false, true] {
            let mut sb = grep_searcher::SearcherBuilder::new();
            sb.line_terminator(LineTerminator::byte(0)).multi_line(true).line_number(true).invert_match(invert).binary_detection(grep_searcher::BinaryDetection::none());
            let mut searcher = sb.build();
            for input in inputs.iter() {
                let recs = split_lines(input, 0);
                // records overlapped by the successive matches over the whole input
                let mut hits = vec![false; recs.len()];
                let mut pos = 0usize;
                while pos <= input.len() {
                    let Some(mm) = re.find_at(input, pos) else { break };
                    let (ms, me) = (mm.start(), mm.end());
                    let mut touched = 0;
                    for (i, &(s, e)) in recs.iter().enumerate() {
                        let hit = if ms == me { (s <= ms && ms < e) || (ms == e && e == input.len() && input.last() != Some(&0)) } else { ms < e && s < me };
                        if hit {
                            hits[i] = true;
                            touched += 1;
                        }
                    }
                    if touched > 1 {
                        spanning += 1;
                    }
                    pos = if ms == me { me + 1 } else { me };
                }
                let listing = |hits: &[bool]| -> Vec<(Vec<u8>, u64, u64)> {
                    recs.iter().enumerate().filter(|(i, _)| hits[*i] != invert).map(|(i, &(s, e))| (input[s..e].to_vec(), i as u64 + 1, s as u64)).collect()
                };
                let want = listing(&hits);
                // counterfactual of known finding
                // `inverted-multiline-resumes-at-line-end`
                let want_known = if invert { Some(listing(&reference_hits_term(&re, input, &recs, true, 0))) } else { None };
                for st in [0, 1] {
                    let mut rec = Rec::new();
                    let res = if st == 0 {
                        searcher.search_slice(&m, input, &mut rec)
                    } else {
                        let sizes = [1usize, 2, 1, 3];
                        searcher.search_reader(&m, FragReader::new(input, &sizes, 2), &mut rec)
                    };
                    runs += 1;
                    let mut got: Vec<(Vec<u8>, u64, u64)> = vec![];
                    for e in rec.events.iter() {
                        if let Ev::Match { bytes, line, off } = e {
                            for (k, &(s, en)) in split_lines(bytes, 0).iter().enumerate() {
                                got.push((bytes[s..en].to_vec(), line.unwrap_or(0) + k as u64, off + s as u64));
                            }
                        }
                    }
                    if res.is_ok() && got != want && want_known.as_ref() == Some(&got) {
                        known += 1;
                        if known <= 2 {
                            disc.push((
                                Some("inverted-multiline-resumes-at-line-end"),
                                format!("null-data | {} | -v {} | {}", pat, if st == 0 { "slice" } else { "reader" }, esc(input)),
                                json!({"kind":"null-data-multiline","pattern":pat,"invert":invert,"input":esc(input)}),
                            ));
                        }
                        continue;
                    }
                    if (res.is_err() || got != want) && disc.len() < 30 {
                        // the inverted search's open finding (resumption at the end of the
                        // matched record) is not attributed here: a discrepancy in this
                        // layer is reported as it is
                        disc.push((
                            None,
                            format!("null-data | {} | {}{} | {}", pat, if invert { "-v " } else { "" }, if st == 0 { "slice" } else { "reader" }, esc(input)),
                            json!({"kind":"null-data-multiline","pattern":pat,"invert":invert,"strategy":if st == 0 { "slice" } else { "reader" },"input":esc(input),
                                   "reported":got.iter().map(|(b, l, o)| format!("{}#{}@{}", esc(b), l, o)).collect::<Vec<_>>(),
                                   "expected":want.iter().map(|(b, l, o)| format!("{}#{}@{}", esc(b), l, o)).collect::<Vec<_>>(),
                                   "error":res.err().map(|e| e.to_string())}),
                        ));
                    }
                }
            }
        }
    }
    (runs, spanning, disc)
}

/// Flatten multi-line Match events into one event per line.
fn flatten(evs: &[Ev]) -> Vec<Ev> {
    let mut out = vec![];
    for e in evs {
        match e {
            Ev::Match { bytes, line, off } => {
                let ls = split_lines(bytes, b'\n');
                for (k, &(s, en)) in ls.iter().enumerate() {
                    out.push(Ev::Match { bytes: bytes[s..en].to_vec(), line: line.map(|l| l + k as u64), off: off + s as u64 });
                }
            }
            other => out.push(other.clone()),
        }
    }
    out
}

#[derive(Clone, Copy, Debug, PartialEq, Eq, Hash, PartialOrd, Ord)]
enum St {
    Slice,
    Reader,
    File,
}

#[derive(Default)]
struct Acc {
    runs: u64,
    nontrivial: u64,
    multi_strategy_runs: u64,
    line_strategy_runs: u64,
    spanning: u64,
    patterns_built: u64,
    patterns_rejected_both: u64,
    disc: Vec<(Option<&'static str>, String, serde_json::Value)>,
}

pub fn all_patterns(maxlen: usize) -> Vec<String> {
    let n = seq_count(TOKENS.len(), maxlen);
    let mut idx = vec![];
    (1..n)
        .map(|i| {
            seq_decode(TOKENS.len(), i, &mut idx);
            idx.iter().map(|&t| TOKENS[t]).collect::<String>()
        })
        .collect()
}

fn run_one(
    searcher: &mut grep_searcher::Searcher,
    m: &RegexMatcher,
    st: St,
    input: &[u8],
    file: &std::path::Path,
) -> (Vec<Ev>, Option<String>) {
    let mut rec = Rec::new();
    let res = match st {
        St::Slice => searcher.search_slice(m, input, &mut rec),
        St::Reader => {
            let sizes = [1usize, 2, 1, 3];
            searcher.search_reader(m, FragReader::new(input, &sizes, 2), &mut rec)
        }
        St::File => searcher.search_path(m, file, &mut rec),
    };
    (rec.events, res.err().map(|e| e.to_string()))
}

pub fn run(args: &Args) -> ! {
    if let Some(r) = &args.replay {
        replay(r);
    }
    let tier = args.tier;
    let mut ev = Evidence::new(args, "exploration");
    let mut verdict = Verdict::new("C13");
    let scratch = Scratch::new("c13");
    let mut pats = all_patterns(3);
    let n_upto3 = pats.len();
    // plus every length-4 token string that has an alternation AND a token
    // that can cross a line boundary (an anchored / empty-matching branch next
    // to a line-crossing branch needs four tokens, e.g. `\b|a\nb`)
    {
        let n3 = seq_count(TOKENS.len(), 3);
        let n4 = seq_count(TOKENS.len(), 4);
        let mut idx = vec![];
        for i in n3..n4 {
            seq_decode(TOKENS.len(), i, &mut idx);
            let has_alt = idx.iter().any(|&t| TOKENS[t] == "|");
            let has_cross = idx.iter().any(|&t| TOKENS[t] == "\\n" || TOKENS[t] == "(?s:.)");
            if has_alt && has_cross {
                pats.push(idx.iter().map(|&t| TOKENS[t]).collect::<String>());
            }
        }
    }
    // text anchors: a search that resumes at a line start must still see
    // what precedes it
    for sp in ["\\Aa\\n", "\\Aa", "(?-m)^a\\n", "\\Aa\\n|b", "\\A(?:a|b)\\n", "\\A\\n", "(?-m:^)b?\\n", "\\Aa\\n|\\Ab"] {
        pats.push(sp.replace("\\\\", "\\"));
    }
    let modes = [
        Mode { crlf: false, dotall: false, wrap: 0 },
        Mode { crlf: false, dotall: true, wrap: 0 },
        Mode { crlf: true, dotall: false, wrap: 0 },
        // -x / -w wrappers (quick tier: for the patterns of up to two tokens)
        Mode { crlf: true, dotall: false, wrap: 1 },
        Mode { crlf: true, dotall: false, wrap: 2 },
        Mode { crlf: false, dotall: false, wrap: 1 },
    ];
    let n_upto2 = all_patterns(2).len();
    let mut input_sets: BTreeMap<bool, Vec<Vec<u8>>> = BTreeMap::new();
    for crlf in [false, true] {
        let al: Vec<u8> = if crlf { vec![b'a', b'b', b'-', b'\n', b'\r'] } else { vec![b'a', b'b', b'-', b'\n'] };
        let maxlen = match (tier, crlf) {
            (Tier::Quick, false) => 5,
            (Tier::Quick, true) => 4,
            (Tier::Thorough, false) => 7,
            (Tier::Thorough, true) => 6,
        };
        let n = seq_count(al.len(), maxlen);
        let mut idx = vec![];
        let v: Vec<Vec<u8>> = (0..n)
            .map(|i| {
                seq_decode(al.len(), i, &mut idx);
                idx.iter().map(|&k| al[k]).collect()
            })
            .collect();
        input_sets.insert(crlf, v);
    }
    // every input as a file (for the file strategy), written once
    let mut file_of: BTreeMap<(bool, usize), std::path::PathBuf> = BTreeMap::new();
    for (&crlf, ins) in input_sets.iter() {
        let dir = scratch.path.join(if crlf { "crlf" } else { "lf" });
        std::fs::create_dir_all(&dir).unwrap_or_else(|_| machinery_error("scratch"));
        for (i, inp) in ins.iter().enumerate() {
            let p = dir.join(format!("{}", i));
            std::fs::write(&p, inp).unwrap_or_else(|_| machinery_error("scratch write"));
            file_of.insert((crlf, i), p);
        }
    }
    let ctxs: Vec<(usize, usize)> = tier.pick(vec![(0, 0), (1, 1)], vec![(0, 0), (1, 0), (0, 1), (1, 1)]);
    let work: Vec<(usize, Mode)> = (0..pats.len())
        .flat_map(|p| modes.iter().map(move |&m| (p, m)))
        .filter(|&(p, m)| m.wrap == 0 || tier == Tier::Thorough || p < n_upto2)
        .collect();
    let mut total = Acc::default();
    par_fold(
        work.len(),
        4,
        Acc::default,
        |acc, wi| {
            let (pi, mode) = work[wi];
            let pat = &pats[pi];
            let m = build_matcher(pat, mode);
            let rf = build_reference(pat, mode);
            let (m, rf) = match (m, rf) {
                (Some(m), Some(r)) => (m, r),
                (None, None) => {
                    acc.patterns_rejected_both += 1;
                    return;
                }
                (None, Some(_)) => {
                    // grep-regex may reject what regex accepts only for
                    // reasons outside multi-line mode; report it
                    acc.disc.push((None, format!("rejected | {} | {:?}", pat, mode), json!({"kind":"pattern-rejected","pattern":pat,"mode":format!("{:?}",mode)})));
                    return;
                }
                (Some(_), None) => {
                    acc.disc.push((None, format!("reference-rejected | {} | {:?}", pat, mode), json!({"kind":"reference-rejected","pattern":pat})));
                    return;
                }
            };
            acc.patterns_built += 1;
            let term = if mode.crlf { Term::Crlf } else { Term::Lf };
            let mut per_pat = 0;
            // one searcher per (invert, ctx, strategy), reused across inputs
            let mut searchers: Vec<(Cfg, St, grep_searcher::Searcher)> = vec![];
            let family4 = pi >= n_upto3;
            for invert in [false, true] {
                for &(a, b) in ctxs.iter() {
                    for st in [St::Slice, St::Reader, St::File] {
                        if family4 && tier == Tier::Quick && (st != St::Slice || (a, b) != (0, 0)) {
                            continue;
                        }
                        // the file strategy (open + read syscalls per search)
                        // runs for every 4th pattern
                        if st == St::File && pi % 4 != 0 {
                            continue;
                        }
                        let cfg = Cfg { term, invert, after: a, before: b, passthru: false, line_number: true, stop_on_nonmatch: false, multi_line: true };
                        let mut sb = cfg.builder();
                        sb.memory_map(MmapChoice::never());
                        let s = sb.build();
                        searchers.push((cfg, st, s));
                    }
                }
                // passthru: every line is delivered, the lines of the matches
                // as matches and the others as context, numbered as in the input
                if !family4 && mode.wrap == 0 {
                    for st in [St::Slice, St::Reader] {
                        if st == St::Reader && tier == Tier::Quick && pi % 2 != 0 {
                            continue;
                        }
                        let cfg = Cfg { term, invert, after: 0, before: 0, passthru: true, line_number: true, stop_on_nonmatch: false, multi_line: true };
                        let mut sb = cfg.builder();
                        sb.memory_map(MmapChoice::never());
                        searchers.push((cfg, st, sb.build()));
                    }
                }
            }
            let is_multi = searchers[0].2.multi_line_with_matcher(&m);
            for (ii, input) in input_sets[&mode.crlf].iter().enumerate() {
                if family4 && tier == Tier::Quick && input.len() > 4 {
                    break; // inputs are ordered by length
                }
                let lines = split_lines(input, b'\n');
                // A pattern that cannot match `\n` is outside this property's
                // quantifier: the searcher runs it line by line, and C02 demands
                // that the multi-line request then changes nothing. Under LF the
                // whole-input reference and the per-line one coincide (and the
                // whole-input one is kept); under CRLF they differ exactly on
                // matches inside a line's `\r\n`, which is not part of the line.
                let per_line: Option<Vec<bool>> = if !is_multi && mode.crlf {
                    Some(lines.iter().map(|&(s, e)| rf.is_match(strip(&input[s..e], Term::Crlf))).collect())
                } else {
                    None
                };
                let hits = per_line.clone().unwrap_or_else(|| reference_hits(&rf, input, &lines, false));
                let hits_f5 = per_line.unwrap_or_else(|| reference_hits(&rf, input, &lines, true));
                if hits.iter().any(|&h| h) {
                    acc.nontrivial += 1;
                }
                let file = &file_of[&(mode.crlf, ii)];
                for (cfg, st, searcher) in searchers.iter_mut() {
                    let (got, err) = run_one(searcher, &m, *st, input, file);
                    acc.runs += 1;
                    if is_multi {
                        acc.multi_strategy_runs += 1;
                    } else {
                        acc.line_strategy_runs += 1;
                    }
                    let model = grep_model(input, cfg, &|i, _| hits[i]);
                    let flat = flatten(&got);
                    if got.iter().any(|e| matches!(e, Ev::Match { bytes, .. } if bytes.iter().filter(|&&b| b == b'\n').count() > 1)) {
                        acc.spanning += 1;
                    }
                    if err.is_some() || !events_agree(&flat, &model) {
                        if per_pat < 3 && acc.disc.len() < 400 {
                            per_pat += 1;
                            let model_f5 = grep_model(input, cfg, &|i, _| hits_f5[i]);
                            let finding = if cfg.invert && err.is_none() && events_agree(&flat, &model_f5) {
                                Some("inverted-multiline-resumes-at-line-end")
                            } else {
                                None
                            };
                            acc.disc.push((
                                finding,
                                format!("{} | {:?} | {} | {:?} | {}", pat, mode, cfg.show(), st, esc(input)),
                                json!({
                                    "kind": "multiline-lines", "pattern": pat, "crlf": mode.crlf, "dotall": mode.dotall, "wrap": mode.wrap,
                                    "cfg": cfg_json(cfg), "strategy": format!("{:?}", st), "input": esc(input),
                                    "delivered": show(&flat), "reference": show(&model), "error": err,
                                    "true_multi_line_strategy": is_multi,
                                }),
                            ));
                        }
                    }
                }
            }
        },
        |a| {
            total.runs += a.runs;
            total.nontrivial += a.nontrivial;
            total.multi_strategy_runs += a.multi_strategy_runs;
            total.line_strategy_runs += a.line_strategy_runs;
            total.spanning += a.spanning;
            total.patterns_built += a.patterns_built;
            total.patterns_rejected_both += a.patterns_rejected_both;
            total.disc.extend(a.disc);
        },
    );
    for (finding, key, v) in total.disc.iter() {
        verdict.discrepancy(*finding, key, v.clone());
    }
    if total.multi_strategy_runs == 0 || total.line_strategy_runs == 0 || total.spanning == 0 {
        machinery_error("C13: a mandatory coverage counter is zero");
    }
    let nul = nul_layer(tier);
    for (f, k, v) in nul.2.iter() {
        verdict.discrepancy(*f, k, v.clone());
    }
    if nul.0 == 0 || nul.1 == 0 {
        machinery_error("C13: the NUL-record layer is vacuous");
    }
    ev.set("null_data_runs", nul.0);
    ev.set("null_data_matches_spanning_records", nul.1);
    ev.set("evaluations", total.runs);
    ev.set("distinct_nontrivial", total.nontrivial);
    ev.set("exhaustive", true);
    ev.set("patterns", pats.len());
    ev.set("pattern_mode_pairs_built", total.patterns_built);
    ev.set("pattern_mode_pairs_rejected_by_both", total.patterns_rejected_both);
    ev.set("runs_on_true_multi_line_strategy", total.multi_strategy_runs);
    ev.set("runs_on_line_strategy_despite_multi_line", total.line_strategy_runs);
    ev.set("runs_with_a_match_block_spanning_lines", total.spanning);
    ev.set("inputs", json!(input_sets.iter().map(|(k, v)| (if *k { "crlf" } else { "lf" }, v.len())).collect::<BTreeMap<_, _>>()));
    ev.set(
        "rule",
        format!(
            "patterns: every token string of length 1..3 over {:?}, plus every length-4 token string containing an alternation and a token that can cross a line boundary (on the quick tier: inputs up to length 4, no context, slice strategy) (built with multi_line, as rg -U does; modes LF, LF+dotall, CRLF, and CRLF -x, CRLF -w, LF -x); inputs: every byte string over {{a,b,-,\\n}} (+\\r under CRLF) up to the length bound; x invert x ((A,B) in {:?} or passthru) x strategy (slice, fragmented reader; search_path without mmap for every 4th pattern); one Searcher per configuration reused across all inputs. Reference: iterate regex::bytes::Regex::find_at over the WHOLE input (pos = end, +1 after an empty match); a line is hit iff a match overlaps it (empty match: the line containing its position, or an unterminated last line at the very end; for a pattern that cannot match \\n under CRLF — searched line by line, outside the property's quantifier — a line is hit iff the pattern matches the line without its \\r\\n); context, separators, numbering, offsets and byte count by the grep model of C03. Compared: the flattened per-line event list. distinct_nontrivial = (pattern, mode, input) triples with at least one hit line.",
            TOKENS, ctxs
        ),
    );
    ev.set("samples", json!([{"pattern": "a|^b\\n-", "input": "ab\\n-\\n", "mode": "LF", "reference_hit_lines": [1]}]));
    ev.assume("the regex crate's find_at is the specification of pattern meaning");
    ev.assume("patterns and inputs above the bounds behave like the enumerated shapes");
    drop(scratch);
    verdict.finish(ev)
}

fn replay(path: &str) -> ! {
    let text = std::fs::read_to_string(path).unwrap_or_else(|_| machinery_error("cannot read replay"));
    let v: serde_json::Value = serde_json::from_str(&text).unwrap_or_else(|_| machinery_error("bad replay"));
    let pat = v["pattern"].as_str().unwrap_or("");
    let mode = Mode { crlf: v["crlf"].as_bool().unwrap_or(false), dotall: v["dotall"].as_bool().unwrap_or(false), wrap: v["wrap"].as_u64().unwrap_or(0) as u8 };
    let cfg = crate::c03::cfg_from_json(&v["cfg"]);
    let input = unesc(v["input"].as_str().unwrap_or(""));
    let st = match v["strategy"].as_str() {
        Some("Reader") => St::Reader,
        Some("File") => St::File,
        _ => St::Slice,
    };
    let m = build_matcher(pat, mode).unwrap_or_else(|| machinery_error("pattern does not build"));
    let rf = build_reference(pat, mode).unwrap();
    let scratch = Scratch::new("c13r");
    let file = scratch.path.join("f");
    std::fs::write(&file, &input).unwrap();
    let mut sb = cfg.builder();
    sb.memory_map(MmapChoice::never());
    let mut s = sb.build();
    let (got, err) = run_one(&mut s, &m, st, &input, &file);
    let lines = split_lines(&input, b'\n');
    let hits = reference_hits(&rf, &input, &lines, false);
    let model = grep_model(&input, &cfg, &|i, _| hits[i]);
    println!("pattern {:?} {:?} {} {:?}\ninput     {}\ndelivered {} ({:?})\nreference {}", pat, mode, cfg.show(), st, esc(&input), show(&flatten(&got)), err, show(&model));
    std::process::exit(if err.is_none() && events_agree(&flatten(&got), &model) { 0 } else { 1 })
}
