//! C15 — exit status and error reporting contract. Fault enumeration (E5) on
//! the REAL `rg` binary: one injected syscall failure (strace -e inject) at
//! EVERY index of the fault-free run's openat / read / getdents64 / write
//! sequence, real faults (mode 000 as an unprivileged uid, dangling symlinks),
//! invalid arguments, and the output pipe closed after k bytes for every k.

use std::{
    collections::{BTreeMap, BTreeSet},
    io::Read,
    path::{Path, PathBuf},
    process::{Command, Stdio},
};

use serde_json::{json, Value};

use crate::core::*;

struct TreeSpec {
    name: &'static str,
    files: Vec<(&'static str, &'static str)>,
}

fn trees() -> Vec<TreeSpec> {
    vec![
        TreeSpec { name: "mixed", files: vec![("a.txt", "needle a\nx\n"), ("b.txt", "hay\n"), ("d/c.txt", "x\nneedle c\n"), ("d/e.txt", "hay\n")] },
        TreeSpec { name: "all-match", files: vec![("a.txt", "needle\n"), ("d/b.txt", "needle\nneedle\n")] },
        TreeSpec { name: "no-match", files: vec![("a.txt", "hay\n"), ("d/b.txt", "hay\n")] },
    ]
}

fn modes() -> Vec<(&'static str, Vec<&'static str>)> {
    vec![
        ("standard", vec!["-n", "-H", "--no-heading"]),
        ("count", vec!["-c", "-H"]),
        ("files-with-matches", vec!["-l"]),
        ("quiet", vec!["-q"]),
        ("files", vec!["--files"]),
        ("json", vec!["--json"]),
    ]
}

struct Run {
    stdout: Vec<u8>,
    stderr: Vec<u8>,
    status: i32,
    log: String,
}

fn base_cmd(rg: &Path, dir: &Path, mode: &(&'static str, Vec<&'static str>), threads: usize) -> Vec<String> {
    let mut v = vec![rg.display().to_string(), "--no-config".into(), "--color".into(), "never".into(), format!("-j{}", threads)];
    if threads == 1 {
        v.push("--sort".into());
        v.push("path".into());
    }
    for a in mode.1.iter() {
        v.push(a.to_string());
    }
    if mode.0 != "files" {
        v.push("needle".into());
    }
    let _ = dir;
    v
}

fn run_strace(dir: &Path, cmdline: &[String], inject: Option<&str>, logfile: &Path, sched: bool) -> Run {
    let mut cmd = Command::new("strace");
    cmd.current_dir(dir).args(["-f", "-o"]).arg(logfile).args(["-e", "trace=openat,read,getdents64,write,close"]);
    if let Some(i) = inject {
        cmd.arg("-e").arg(format!("inject={}", i));
    }
    cmd.args(cmdline);
    if sched {
        // default schedule (choice 0 everywhere): deterministic -j2
        cmd.env("RG_VERIF_SCHED", "");
    } else {
        cmd.env_remove("RG_VERIF_SCHED");
    }
    cmd.env_remove("RG_VERIF_TRACE");
    let out = cmd.output().unwrap_or_else(|_| machinery_error("cannot run strace"));
    let log = std::fs::read_to_string(logfile).unwrap_or_default();
    Run { stdout: out.stdout, stderr: out.stderr, status: out.status.code().unwrap_or(-1), log }
}

#[derive(Debug, Clone)]
struct Injected {
    syscall: String,
    /// path the call was about (via the fd table for read/getdents/write)
    path: Option<String>,
    is_dir: bool,
    is_stdout: bool,
    line_index: usize,
}

/// Parse the strace log: count calls per syscall, and find the injected one.
fn parse_log(log: &str) -> (BTreeMap<String, usize>, Option<Injected>, Vec<(usize, String)>) {
    let mut counts: BTreeMap<String, usize> = BTreeMap::new();
    let mut fds: BTreeMap<i64, (String, bool)> = BTreeMap::new();
    let mut injected = None;
    let mut opens: Vec<(usize, String)> = vec![];
    for (li, l) in log.lines().enumerate() {
        let Some(sp) = l.find(' ') else { continue };
        let rest = l[sp + 1..].trim_start();
        let Some(par) = rest.find('(') else { continue };
        let name = &rest[..par];
        if !["openat", "read", "getdents64", "write", "close"].contains(&name) {
            continue;
        }
        if rest.contains("<unfinished") || rest.contains("resumed>") {
            // (multi-threaded interleaving of strace lines: ignore the halves;
            // counts are only used for -j1 and the serialised -j2)
        }
        *counts.entry(name.to_string()).or_insert(0) += 1;
        let args = &rest[par + 1..];
        let ret: Option<i64> = rest.rsplit(" = ").next().and_then(|r| r.split_whitespace().next()).and_then(|x| x.parse().ok());
        let was_injected = rest.contains("(INJECTED)");
        match name {
            "openat" => {
                let path = args.split('"').nth(1).unwrap_or("").to_string();
                let is_dir = args.contains("O_DIRECTORY");
                opens.push((li, path.clone()));
                if let Some(fd) = ret {
                    if fd >= 0 {
                        fds.insert(fd, (path.clone(), is_dir));
                    }
                }
                if was_injected {
                    injected = Some(Injected { syscall: name.into(), path: Some(path), is_dir, is_stdout: false, line_index: li });
                }
            }
            "close" => {
                if let Some(fd) = args.split(')').next().and_then(|x| x.trim().parse::<i64>().ok()) {
                    fds.remove(&fd);
                }
            }
            _ => {
                let fd: i64 = args.split(|c| c == ',' || c == ')').next().and_then(|x| x.trim().parse().ok()).unwrap_or(-1);
                if was_injected {
                    let (path, is_dir) = fds.get(&fd).cloned().map(|(p, d)| (Some(p), d)).unwrap_or((None, false));
                    injected = Some(Injected { syscall: name.into(), path, is_dir, is_stdout: fd == 1, line_index: li });
                }
            }
        }
    }
    (counts, injected, opens)
}

/// The lines / messages of stdout that do not belong to `path` (or to
/// anything below it, for a directory).
fn without_path(stdout: &[u8], path: &str, is_dir: bool, json: bool) -> Vec<String> {
    let norm = path.trim_start_matches("./");
    let belongs = |p: &str| -> bool {
        let p = p.trim_start_matches("./");
        if is_dir {
            norm == "." || norm.is_empty() || p == norm || p.starts_with(&format!("{}/", norm))
        } else {
            p == norm
        }
    };
    let mut out = vec![];
    for l in String::from_utf8_lossy(stdout).lines() {
        if json {
            if let Ok(mut v) = serde_json::from_str::<Value>(l) {
                if v["type"] == "summary" {
                    continue;
                }
                let p = v["data"]["path"]["text"].as_str().unwrap_or("").to_string();
                if belongs(&p) {
                    continue;
                }
                if let Some(m) = v["data"].as_object_mut() {
                    m.remove("stats");
                }
                out.push(v.to_string());
            }
            continue;
        }
        let p = l.split(':').next().unwrap_or("");
        if belongs(p) {
            continue;
        }
        out.push(l.to_string());
    }
    out
}

#[derive(Default)]
struct Acc {
    runs: u64,
    injected_on_tree: u64,
    skipped_startup: u64,
    by_kind: BTreeMap<String, u64>,
    disc: Vec<(String, Value)>,
}

pub fn run(args: &Args) -> ! {
    if let Some(r) = &args.replay {
        replay(r);
    }
    let tier = args.tier;
    let mut ev = Evidence::new(args, "fault_enumeration");
    let mut verdict = Verdict::new("C15");
    let rg = build_rg();
    let scratch = Scratch::new("c15");
    // make the scratch tree reachable for the unprivileged uid
    let _ = Command::new("chmod").arg("755").arg(&scratch.path).status();
    let ts = trees();
    for t in ts.iter() {
        for (f, c) in t.files.iter() {
            let p = scratch.path.join(t.name).join(f);
            std::fs::create_dir_all(p.parent().unwrap()).unwrap_or_else(|_| machinery_error("scratch"));
            std::fs::write(&p, c).unwrap_or_else(|_| machinery_error("scratch"));
        }
    }
    let ms = modes();
    let mut total = Acc::default();

    // ---- 1. invalid arguments ------------------------------------------------
    let invalid: Vec<Vec<&str>> = vec![
        // patterns
        vec!["("], vec!["-e", "("], vec!["a{2,1}"], vec![r"\p{nosuchclass}"], vec!["(?P<n>a)(?P<n>b)"], vec!["-e", "ok", "-e", "[z-a]"], vec!["-f", "no-such-pattern-file"],
        vec!["--pcre2", "needle"], vec!["--engine", "bogus", "needle"],
        // globs, wherever they are accepted
        vec!["-g", "[", "needle"], vec!["--iglob", "[", "needle"], vec!["-g", "{a,b", "needle"], vec!["-g", "a[z-a]", "needle"],
        vec!["--pre-glob", "[", "needle"], vec!["--pre-glob", "{a,b", "needle"], vec!["--pre", "cat", "--pre-glob", "[", "needle"], vec!["--no-pre", "--pre-glob", "a[z-a]", "needle"],
        // types
        vec!["-t", "nosuchtype", "needle"], vec!["-T", "nosuchtype", "needle"], vec!["--type-add", "malformed", "needle"], vec!["--type-add", "x:include:nosuchtype", "needle"],
        // encodings, numbers, sizes
        vec!["-E", "no-such-encoding", "needle"], vec!["--max-count", "x", "needle"], vec!["-A", "x", "needle"], vec!["-B", "-1", "needle"], vec!["-C", "x", "needle"],
        vec!["-j", "x", "needle"], vec!["--max-depth", "x", "needle"], vec!["--max-filesize", "1X", "needle"], vec!["--max-columns", "x", "needle"],
        vec!["--dfa-size-limit", "1Q", "needle"], vec!["--regex-size-limit", "x", "needle"],
        // choices
        vec!["--sort", "bogus", "needle"], vec!["--sortr", "bogus", "needle"], vec!["--color", "bogus", "needle"], vec!["--colors", "bogus", "needle"],
        vec!["--hyperlink-format", "{nosuchvariable}", "needle"], vec!["--generate", "bogus"],
        // flags
        vec!["--no-such-flag", "needle"], vec!["-~", "needle"], vec!["--max-count"],
        // an invalid flag is an error wherever it stands, also behind a flag
        // that selects a special mode
        vec!["--version", "--no-such-flag"], vec!["-V", "-E", "bogus", "x"], vec!["-h", "--max-count=abc", "x"], vec!["--help", "--no-such-flag"],
        vec!["--no-such-flag", "--version"], vec!["--pcre2-version", "--no-such-flag"], vec!["--type-list", "--max-count", "x"], vec!["--files", "--max-depth", "x"],
        // ... and whether or not a match is possible at all
        vec!["-m0", "("], vec!["--max-count", "0", "a{2,1}", "."], vec!["-m0", "-e", "ok", "-e", "[z-a]"],
        // the same under output modes that could print something first
        vec!["--files", "-g", "["], vec!["--files", "--pre-glob", "["], vec!["-c", "--pre-glob", "[", "needle"], vec!["--json", "-t", "nosuchtype", "needle"], vec!["-l", "--iglob", "{a", "needle"],
    ];
    for bad in invalid {
        let out = Command::new(&rg).current_dir(scratch.path.join("mixed")).arg("--no-config").args(&bad).output().unwrap_or_else(|_| machinery_error("rg"));
        total.runs += 1;
        *total.by_kind.entry("invalid-argument".into()).or_insert(0) += 1;
        if out.status.code() != Some(2) || !out.stdout.is_empty() || out.stderr.is_empty() {
            total.disc.push((format!("invalid-argument | {:?}", bad), json!({"kind":"invalid-argument","args":bad,"status":out.status.code(),"stdout":esc(&out.stdout),"stderr":esc(&out.stderr)})));
        }
    }

    // ---- 1b. the same through a configuration file ----------------------------
    // (content of the file, arguments, expected status, stdout must be empty)
    {
        let cfg = scratch.path.join("rgconfig");
        let rows: Vec<(&str, Vec<&str>, i32, bool)> = vec![
            ("--help\n", vec!["needle"], 0, false),
            ("-h\n", vec!["needle"], 0, false),
            ("--version\n", vec!["needle"], 0, false),
            ("-V\n", vec![], 0, false),
            ("--pcre2-version\n", vec!["needle"], -1, false),
            ("--no-such-flag\n", vec!["needle"], 2, true),
            ("--regexp=(\n", vec![], 2, true),
            ("--max-count=abc\n", vec!["needle"], 2, true),
            ("--glob=[\n", vec!["needle"], 2, true),
            ("-i\n", vec!["NEEDLE"], 0, false),
            ("--help\n", vec!["--no-config", "nomatchatall"], 1, true),
        ];
        for (content, a, status, empty_stdout) in rows {
            std::fs::write(&cfg, content).unwrap_or_else(|_| machinery_error("scratch"));
            let out = Command::new(&rg).current_dir(scratch.path.join("mixed")).env("RIPGREP_CONFIG_PATH", &cfg).args(&a).output().unwrap_or_else(|_| machinery_error("rg"));
            total.runs += 1;
            *total.by_kind.entry("config-file-argument".into()).or_insert(0) += 1;
            let code = out.status.code();
            // (--pcre2-version: 0 or 1 depending on how rg was built; never a crash)
            let status_ok = if status == -1 { code == Some(0) || code == Some(1) } else { code == Some(status) };
            let stderr = String::from_utf8_lossy(&out.stderr).to_string();
            if !status_ok || (empty_stdout && !out.stdout.is_empty()) || (status == 2 && out.stderr.is_empty()) || stderr.contains("panicked") {
                total.disc.push((
                    format!("config-file-argument | {:?} | {:?}", content, a),
                    json!({"kind":"config-file-argument","config":content,"args":a,"status":code,"expected_status":status,"stdout":esc(&out.stdout[..out.stdout.len().min(200)]),"stderr":stderr[..stderr.len().min(300)].to_string()}),
                ));
            }
        }
    }

    // ---- 2. injected syscall faults at every index ---------------------------
    let mut configs = vec![];
    for ti in 0..ts.len() {
        for mi in 0..ms.len() {
            for threads in [1usize, 2] {
                configs.push((ti, mi, threads));
            }
        }
    }
    let faults: Vec<(&str, &str)> = vec![("openat", "EACCES"), ("openat", "ENOENT"), ("read", "EIO"), ("getdents64", "EACCES"), ("write", "EPIPE")];
    let accs = std::sync::Mutex::new(Acc::default());
    par_fold(
        configs.len(),
        1,
        || (),
        |_, ci| {
            let (ti, mi, threads) = configs[ci];
            let dir = scratch.path.join(ts[ti].name);
            let mode = &ms[mi];
            let cmdline = base_cmd(&rg, &dir, mode, threads);
            let logfile = scratch.path.join(format!("st-{}.log", ci));
            let sched = threads > 1;
            let base = run_strace(&dir, &cmdline, None, &logfile, sched);
            let (counts, _, _) = parse_log(&base.log);
            let mut acc = Acc::default();
            acc.runs += 1;
            let tree_files: BTreeSet<String> = ts[ti].files.iter().map(|(f, _)| f.to_string()).collect();
            let in_tree = |p: &str| -> bool {
                let p = p.trim_start_matches("./");
                p == "." || p.is_empty() || p == "d" || tree_files.contains(p)
            };
            for (sc, errno) in faults.iter() {
                let n = counts.get(*sc).copied().unwrap_or(0);
                for k in 1..=n {
                    let r = run_strace(&dir, &cmdline, Some(&format!("{}:error={}:when={}", sc, errno, k)), &logfile, sched);
                    acc.runs += 1;
                    let (_, inj, opens) = parse_log(&r.log);
                    let Some(inj) = inj else { continue };
                    let key = |why: &str| format!("{} | {} | -j{} | {}:{}@{} on {:?} | {}", ts[ti].name, mode.0, threads, sc, errno, k, inj.path, why);
                    let report = |acc: &mut Acc, why: String| {
                        if acc.disc.len() < 8 {
                            acc.disc.push((
                                key(&why),
                                json!({"kind":"injected-fault","tree":ts[ti].name,"mode":mode.0,"threads":threads,"fault":format!("{}:error={}:when={}", sc, errno, k),
                                       "path":inj.path,"why":why,"status":r.status,"stdout":esc(&r.stdout[..r.stdout.len().min(300)]),"stderr":esc(&r.stderr[..r.stderr.len().min(300)]),
                                       "fault_free_stdout":esc(&base.stdout[..base.stdout.len().min(300)]),"fault_free_status":base.status}),
                            ));
                        }
                    };
                    if inj.is_stdout && inj.syscall == "write" {
                        // the consumer went away
                        acc.injected_on_tree += 1;
                        *acc.by_kind.entry("stdout-epipe".into()).or_insert(0) += 1;
                        // (when nothing matches, the only write is a final
                        // summary; "no match" then remains a correct status)
                        if r.status != 0 && !(r.status == 1 && base.status == 1) {
                            report(&mut acc, format!("EPIPE on stdout: exit status {} (expected 0)", r.status));
                        }
                        if !r.stderr.is_empty() {
                            report(&mut acc, "EPIPE on stdout: a diagnostic was printed".into());
                        }
                        let later_opens = opens.iter().filter(|(li, p)| *li > inj.line_index && tree_files.contains(p.trim_start_matches("./"))).count();
                        if later_opens > threads - 1 + if threads > 1 { 1 } else { 0 } {
                            report(&mut acc, format!("EPIPE on stdout: {} more files were opened afterwards (not prompt)", later_opens));
                        }
                        continue;
                    }
                    let Some(path) = inj.path.clone() else {
                        acc.skipped_startup += 1;
                        continue;
                    };
                    if !in_tree(&path) || inj.syscall == "write" {
                        acc.skipped_startup += 1;
                        continue;
                    }
                    acc.injected_on_tree += 1;
                    *acc.by_kind.entry(format!("{}-{}", sc, if inj.is_dir { "dir" } else { "file" })).or_insert(0) += 1;
                    // decision table
                    let stderr = String::from_utf8_lossy(&r.stderr).to_string();
                    let shown = path.trim_start_matches("./");
                    let named = stderr.lines().filter(|l| l.contains(shown) || (shown.is_empty() || shown == ".")).count();
                    if named == 0 {
                        report(&mut acc, format!("no diagnostic naming {:?} on stderr", shown));
                    }
                    let expect_status = if mode.0 == "quiet" && r.status == 0 {
                        // --quiet found a match: 0 is allowed
                        0
                    } else {
                        2
                    };
                    if r.status != expect_status {
                        report(&mut acc, format!("exit status {} after an error (expected {})", r.status, expect_status));
                    }
                    let json = mode.0 == "json";
                    let got = without_path(&r.stdout, &path, inj.is_dir, json);
                    let want = without_path(&base.stdout, &path, inj.is_dir, json);
                    let same = if threads == 1 {
                        got == want
                    } else {
                        let (mut a, mut b) = (got.clone(), want.clone());
                        a.sort();
                        b.sort();
                        a == b
                    };
                    if !same && mode.0 != "quiet" {
                        report(&mut acc, "the results of the other files differ from the fault-free run".into());
                    }
                }
            }
            let mut t = accs.lock().unwrap();
            t.runs += acc.runs;
            t.injected_on_tree += acc.injected_on_tree;
            t.skipped_startup += acc.skipped_startup;
            for (k, v) in acc.by_kind {
                *t.by_kind.entry(k).or_insert(0) += v;
            }
            t.disc.extend(acc.disc);
        },
        |_| {},
    );
    {
        let a = accs.into_inner().unwrap();
        total.runs += a.runs;
        total.injected_on_tree += a.injected_on_tree;
        total.skipped_startup += a.skipped_startup;
        for (k, v) in a.by_kind {
            *total.by_kind.entry(k).or_insert(0) += v;
        }
        total.disc.extend(a.disc);
    }

    // ---- 3. real faults as an unprivileged user -------------------------------
    {
        let d = scratch.path.join("real");
        std::fs::create_dir_all(d.join("locked")).unwrap();
        std::fs::write(d.join("a.txt"), "needle\n").unwrap();
        std::fs::write(d.join("secret.txt"), "needle\n").unwrap();
        std::fs::write(d.join("locked/in.txt"), "needle\n").unwrap();
        let _ = std::os::unix::fs::symlink(d.join("gone"), d.join("dangling.lnk"));
        // a directory link that points to its own directory (only followed under -L;
        // nothing else can go wrong below `sub`)
        std::fs::create_dir_all(d.join("sub")).unwrap();
        std::fs::write(d.join("sub/s.txt"), "needle\n").unwrap();
        let _ = std::os::unix::fs::symlink(".", d.join("sub/loop"));
        // a preprocessor that fails without a word after copying its input
        {
            use std::os::unix::fs::PermissionsExt;
            std::fs::write(d.join("silentfail.sh"), "#!/bin/sh\ncat \"$1\"\nexit 3\n").unwrap();
            let _ = std::fs::set_permissions(d.join("silentfail.sh"), std::fs::Permissions::from_mode(0o755));
        }
        // a directory that can be listed but not entered (r--): its entries
        // can be neither stat'ed nor opened
        std::fs::create_dir_all(d.join("listonly")).unwrap();
        std::fs::write(d.join("listonly/in.txt"), "needle\n").unwrap();
        let _ = Command::new("chmod").arg("444").arg(d.join("listonly")).status();
        let _ = Command::new("chmod").arg("000").arg(d.join("secret.txt")).status();
        let _ = Command::new("chmod").arg("000").arg(d.join("locked")).status();
        let cases: Vec<(&str, Vec<&str>, Vec<&str>, i32, bool)> = vec![
            // name, args, paths that must be named on stderr, status, a.txt's result expected on stdout
            ("mode-000 file and directory", vec!["-j1", "--sort", "path", "needle"], vec!["secret.txt", "locked"], 2, true),
            ("mode-000, two threads", vec!["-j2", "needle"], vec!["secret.txt", "locked"], 2, true),
            ("mode-000, --files", vec!["-j1", "--files"], vec!["locked"], 2, true),
            ("dangling symlink named explicitly", vec!["needle", "dangling.lnk", "a.txt"], vec!["dangling.lnk"], 2, true),
            ("dangling symlink under -L", vec!["-L", "-j1", "needle"], vec!["dangling.lnk"], 2, true),
            ("missing path", vec!["needle", "nope.txt", "a.txt"], vec!["nope.txt"], 2, true),
            ("entry that cannot be stat'ed", vec!["-j1", "--sort", "path", "needle", "listonly", "a.txt"], vec!["listonly"], 2, true),
            ("entry that cannot be stat'ed, --max-filesize", vec!["-j1", "--sort", "path", "--max-filesize", "1M", "needle", "listonly", "a.txt"], vec!["listonly"], 2, true),
            ("entry that cannot be stat'ed, --max-filesize, two threads", vec!["-j2", "--max-filesize", "1M", "needle", "listonly", "a.txt"], vec!["listonly"], 2, true),
            ("symlink loop under -L", vec!["-L", "-j1", "needle", "sub", "a.txt"], vec!["loop"], 2, true),
            ("symlink loop under -L, two threads", vec!["-L", "-j2", "needle", "sub", "a.txt"], vec!["loop"], 2, true),
            ("symlink loop under -L, --no-ignore-messages", vec!["-L", "-j1", "--no-ignore-messages", "needle", "sub", "a.txt"], vec!["loop"], 2, true),
            ("preprocessor fails silently after its output was read", vec!["-j1", "--pre", "./silentfail.sh", "needle", "a.txt", "sub/s.txt"], vec!["a.txt", "s.txt"], 2, false),
            ("preprocessor fails silently, two threads", vec!["-j2", "--pre", "./silentfail.sh", "needle", "a.txt", "sub/s.txt"], vec!["a.txt", "s.txt"], 2, false),
            ("quiet with a match and an error", vec!["-q", "needle", "nope.txt", "a.txt"], vec![], 0, false),
            ("--no-messages keeps the status", vec!["--no-messages", "needle", "nope.txt", "a.txt"], vec![], 2, true),
            ("quiet --stats with a match and an error", vec!["-q", "--stats", "needle", "nope.txt", "a.txt"], vec![], 0, false),
            ("quiet --json with a match and an error", vec!["-q", "--json", "needle", "nope.txt", "a.txt"], vec![], 0, false),
            ("quiet --stats, error after the match", vec!["-q", "--stats", "needle", "a.txt", "nope.txt"], vec![], 0, false),
            ("quiet --stats over a directory with an unreadable entry", vec!["-q", "--stats", "-j1", "--sort", "path", "needle"], vec![], 0, false),
            ("quiet --stats, two threads, unreadable entry", vec!["-q", "--stats", "-j2", "needle"], vec![], 0, false),
            ("quiet without a match but with an error", vec!["-q", "nomatchatall", "nope.txt", "a.txt"], vec![], 2, false),
            ("--stats with a match and an error (not quiet)", vec!["--stats", "needle", "nope.txt", "a.txt"], vec!["nope.txt"], 2, true),
        ];
        for (name, a, must_name, status, a_result) in cases {
            let mut cmd = Command::new("setpriv");
            cmd.args(["--reuid=65534", "--regid=65534", "--clear-groups"]).arg(&rg).arg("--no-config").args(["--color", "never"]).args(&a).current_dir(&d);
            let out = cmd.output().unwrap_or_else(|_| machinery_error("cannot run setpriv"));
            total.runs += 1;
            *total.by_kind.entry("real-fault".into()).or_insert(0) += 1;
            let stderr = String::from_utf8_lossy(&out.stderr).to_string();
            let stdout = String::from_utf8_lossy(&out.stdout).to_string();
            let mut why = vec![];
            if out.status.code() != Some(status) {
                why.push(format!("exit status {:?} (expected {})", out.status.code(), status));
            }
            for p in must_name.iter() {
                if !stderr.lines().any(|l| l.contains(p)) {
                    why.push(format!("no diagnostic naming {}", p));
                }
            }
            if a_result && !stdout.contains("a.txt") {
                why.push("the result of the readable file a.txt is missing".into());
            }
            if !why.is_empty() {
                total.disc.push((format!("real-fault | {}", name), json!({"kind":"real-fault","case":name,"args":a,"why":why,"status":out.status.code(),"stdout":stdout,"stderr":stderr})));
            }
        }
        let _ = Command::new("chmod").arg("755").arg(d.join("locked")).arg(d.join("listonly")).status();
    }

    // ---- 4. the consumer closes the pipe after k bytes, for every k -----------
    {
        let d = scratch.path.join("pipe");
        std::fs::create_dir_all(&d).unwrap();
        for i in 0..6 {
            std::fs::write(d.join(format!("f{}.txt", i)), format!("needle {}\nhay\nneedle again {}\n", i, i)).unwrap();
        }
        let mut big = String::new();
        for i in 0..6000 {
            big.push_str(&format!("needle line {}\n", i));
        }
        std::fs::write(d.join("big.txt"), &big).unwrap();
        let variants: Vec<Vec<&str>> = vec![
            vec!["-j1", "--sort", "path", "needle"],
            vec!["-j1", "--sort", "path", "--line-buffered", "needle"],
            vec!["-j2", "needle"],
            vec!["-j1", "--files"],
            vec!["-j2", "--files"],
            vec!["-j1", "-c", "needle"],
            vec!["-j1", "--json", "needle"],
            // the same through a preprocessor / the decompression path
            vec!["-j1", "--sort", "path", "--pre", "cat", "needle"],
            vec!["-j2", "--pre", "cat", "needle"],
            vec!["-j1", "--sort", "path", "-z", "needle"],
            vec!["-j1", "--sort", "path", "--no-mmap", "-E", "latin1", "needle"],
            // output that does not come from a match (the run would end with
            // status 1 if nobody closed the pipe): judged for the k that leave
            // more unread output than a pipe can hold
            vec!["-j1", "--sort", "path", "--passthru", "zzz"],
            vec!["-j2", "--passthru", "zzz"],
        ];
        let first_nomatch_variant = variants.len() - 2;
        let _ = Command::new("gzip").arg("-k").arg(d.join("f1.txt")).status();
        let _ = Command::new("sh").arg("-c").arg("gzip -c big.txt > big2.txt.gz").current_dir(&d).status();
        let mut cases = vec![];
        for (vi, v) in variants.iter().enumerate() {
            let full = Command::new(&rg).current_dir(&d).arg("--no-config").args(v).output().unwrap_or_else(|_| machinery_error("rg"));
            let len = full.stdout.len();
            // dense at the start (every k; every 3rd k for the preprocessor /
            // decompression / transcoding variants on the quick tier)
            let step = if vi >= 7 { tier.pick(3, 1) } else { 1 };
            let mut ks: Vec<usize> = (0..=len.min(tier.pick(120, 400))).step_by(step).collect();
            let mut k = 4096;
            while k < len {
                ks.push(k);
                ks.push(k + 1);
                k += tier.pick(16384, 4096);
            }
            ks.push(len.saturating_sub(1));
            if vi >= first_nomatch_variant {
                if len < 90_000 {
                    machinery_error("C15: the no-match pipe variants need more output than a pipe holds");
                }
                ks.retain(|&k| k + 80_000 < len);
            }
            for k in ks {
                cases.push((vi, k));
            }
        }
        let res = std::sync::Mutex::new((0u64, vec![]));
        par_fold(
            cases.len(),
            4,
            || (),
            |_, i| {
                let (vi, k) = cases[i];
                let mut child = Command::new(&rg)
                    .current_dir(&d)
                    .arg("--no-config")
                    .args(&variants[vi])
                    .stdin(Stdio::null())
                    .stdout(Stdio::piped())
                    .stderr(Stdio::piped())
                    .spawn()
                    .unwrap_or_else(|_| machinery_error("rg"));
                let mut so = child.stdout.take().unwrap();
                let mut buf = vec![0u8; k];
                let mut got = 0;
                while got < k {
                    match so.read(&mut buf[got..]) {
                        Ok(0) | Err(_) => break,
                        Ok(n) => got += n,
                    }
                }
                drop(so); // the consumer goes away
                let mut se = String::new();
                let _ = child.stderr.take().unwrap().read_to_string(&mut se);
                let st = child.wait().map(|s| s.code().unwrap_or(-1)).unwrap_or(-1);
                let mut r = res.lock().unwrap();
                r.0 += 1;
                if (st != 0 || !se.is_empty()) && r.1.len() < 10 {
                    r.1.push((
                        format!("pipe-closed | {:?} | after {} bytes", variants[vi], k),
                        json!({"kind":"pipe-closed","args":variants[vi],"closed_after_bytes":k,"status":st,"stderr":se}),
                    ));
                }
            },
            |_| {},
        );
        let (n, disc) = res.into_inner().unwrap();
        total.runs += n;
        *total.by_kind.entry("pipe-closed-after-k-bytes".into()).or_insert(0) += n;
        total.disc.extend(disc);
        // the consumer is gone before ripgrep writes anything, and the whole
        // output is smaller than any buffer (the write only fails when the
        // output is flushed at the very end): rg is started 0.3 s after the
        // read end of its stdout was closed
        let small = scratch.path.join("pipe-small");
        std::fs::create_dir_all(&small).unwrap();
        std::fs::write(small.join("s1.txt"), "needle\nhay\n").unwrap();
        std::fs::write(small.join("s2.txt"), "hay\n").unwrap();
        let gone: Vec<Vec<&str>> = vec![
            vec!["-j1", "needle"], vec!["-j2", "needle"], vec!["-j1", "--passthru", "zzz"], vec!["-j2", "--passthru", "zzz"], vec!["-j1", "-c", "--include-zero", "zzz"],
            vec!["-j2", "-c", "--include-zero", "zzz"], vec!["-j1", "--files"], vec!["-j1", "--sort", "path", "--files-without-match", "needle"],
        ];
        for v in gone.iter() {
            let mut child = Command::new("sh")
                .current_dir(&small)
                .arg("-c")
                .arg("sleep 0.3; exec \"$0\" \"$@\"")
                .arg(&rg)
                .arg("--no-config")
                .args(v)
                .stdin(Stdio::null())
                .stdout(Stdio::piped())
                .stderr(Stdio::piped())
                .spawn()
                .unwrap_or_else(|_| machinery_error("sh"));
            drop(child.stdout.take());
            let mut se = String::new();
            let _ = child.stderr.take().unwrap().read_to_string(&mut se);
            let st = child.wait().map(|s| s.code().unwrap_or(-1)).unwrap_or(-1);
            total.runs += 1;
            *total.by_kind.entry("pipe-closed-before-start".into()).or_insert(0) += 1;
            if st != 0 || !se.is_empty() {
                total.disc.push((
                    format!("pipe-closed | {:?} | before ripgrep wrote anything (small output)", v),
                    json!({"kind":"pipe-closed-before-start","args":v,"status":st,"stderr":se}),
                ));
            }
        }
    }

    for (k, v) in total.disc.iter() {
        verdict.discrepancy(None, k, v.clone());
    }
    for need in ["openat-file", "openat-dir", "read-file", "getdents64-dir", "stdout-epipe"] {
        if total.by_kind.get(need).copied().unwrap_or(0) == 0 {
            machinery_error(&format!("C15: no injected fault of kind {} landed on the tree ({:?})", need, total.by_kind));
        }
    }
    ev.set("evaluations", total.runs);
    ev.set("distinct_nontrivial", total.injected_on_tree + total.by_kind.get("pipe-closed-after-k-bytes").copied().unwrap_or(0));
    ev.set("exhaustive", true);
    ev.set("runs", total.runs);
    ev.set("injected_faults_on_tree_paths", total.injected_on_tree);
    ev.set("injected_faults_on_startup_files_skipped", total.skipped_startup);
    ev.set("faults_by_kind", json!(total.by_kind));
    ev.set(
        "rule",
        "real rg binary on 3 trees (mixed / all files match / none matches) x 6 modes (standard, -c, -l, -q, --files, --json) x -j1 and -j2 (the latter under the replay scheduler's default schedule so that 'the k-th call' is well defined): the run is repeated under `strace -e inject=<syscall>:error=<E>:when=k` for EVERY k up to the number of such calls in the fault-free run, for openat->EACCES, openat->ENOENT, read->EIO, getdents64->EACCES, write->EPIPE; the injected call's path is recovered from the strace log (faults on start-up files are skipped). Decision table: a fault on a tree path => a diagnostic naming it on stderr, exit status 2 (0 allowed for -q with a match), the other files' results identical to the fault-free run; EPIPE on stdout => status 0, empty stderr, no further file opened (promptly). Plus: 61 invalid argument sets (regex, pattern file, engine, globs for -g / --iglob / --pre-glob with and without a preprocessor, types, encoding, numbers, sizes, sort / colour / hyperlink choices, unknown flags, under --files / -c / -l / --json) => status 2, a diagnostic and empty stdout; 11 rows of arguments coming from a RIPGREP_CONFIG_PATH file (special modes, invalid flags and values: the documented status, never a crash); real faults as uid 65534 (mode-000 file and directory, dangling symlinks, a symlink loop under -L, entries of a list-only directory with and without --max-filesize, a preprocessor failing silently, missing paths, -q, -q --stats, -q --json and --no-messages variants); the stdout consumer closing after k bytes for every k up to 120 (400) and around every buffer boundary, in 13 variants (-j1/-j2, --line-buffered, --files, -c, --json, --pre cat at -j1 and -j2, -z with gzip files, transcoding, --passthru with a pattern that matches nothing at -j1 and -j2) => status 0 and no diagnostic; and eight small-output runs whose consumer is gone before ripgrep starts (the write only fails at the final flush) => the same.",
    );
    ev.set("samples", json!([{"tree": "mixed", "mode": "standard", "fault": "openat:error=EACCES:when=17 (d/c.txt)"}, {"pipe": "rg -j1 --line-buffered needle, consumer closes after 37 bytes"}]));
    ev.assume("strace's fault injector; setpriv to drop root so that mode 000 is effective");
    drop(scratch);
    let _ = PathBuf::new();
    verdict.finish(ev)
}

fn replay(path: &str) -> ! {
    let text = std::fs::read_to_string(path).unwrap_or_else(|_| machinery_error("cannot read replay"));
    let v: Value = serde_json::from_str(&text).unwrap_or_else(|_| machinery_error("bad replay"));
    println!("{}", serde_json::to_string_pretty(&v).unwrap());
    std::process::exit(2)
}
