//! C10 — all reporting modes agree with each other. E1, metamorphic: the same
//! search is rendered by the standard printer, -c, --count-matches, -o, -l,
//! --files-without-match, -q, --json and with --stats, and the relations of
//! the statement are checked; no hand-written expectation.

use std::collections::BTreeMap;

use serde_json::{json, Value};

use crate::{core::*, prn::*};

const PATTERNS: &[&str] = &[
    "a", "b", "-", "ab", "a|b", "a*", "x*", "()", "a|", "$", "^", "^$", "\\b", "\\B", "a$", "^a", "-|$", "\\ba", "a\\b", ".", "a+", "[ab]-", "(a)(b)?",
    // patterns that can match a line terminator (true multi-line searches under -U)
    "a\\n", "\\na", "(?s:.)", "$\\n", "a\\nb", "\\n", "a\\n?", "(?s:a.b)", "\\n\\n", "-\\n-|a",
];

#[derive(Default)]
struct Acc {
    groups: u64,
    nontrivial: u64,
    multi_line_groups: u64,
    runs: u64,
    disc: Vec<(Option<&'static str>, String, Value)>,
}

struct Group {
    std_lines: u64,
    std_has: bool,
    count: u64,
    count_has: bool,
    count_matches: u64,
    only_records: u64,
    files_with: bool,
    files_without: bool,
    quiet_has: bool,
    json_matches: u64,
    json_submatches: u64,
    json_empty_match_msgs: u64,
    stats_matches: Option<u64>,
    stats_matched_lines: Option<u64>,
    cstats_matches: Option<u64>,
    cstats_matched_lines: Option<u64>,
    errors: Vec<String>,
}

fn parse_count(out: &[u8]) -> u64 {
    let s = String::from_utf8_lossy(out);
    s.trim().parse().unwrap_or(0)
}

fn std_match_lines(out: &[u8]) -> u64 {
    // "N:text" are match lines, "N-text" context lines
    let mut n = 0;
    for l in out.split(|&b| b == b'\n') {
        let d = l.iter().take_while(|b| b.is_ascii_digit()).count();
        if d > 0 && l.get(d) == Some(&b':') {
            n += 1;
        }
    }
    n
}

fn run_group(content: &[u8], pat: &str, f: &PFlags) -> Option<(Group, bool)> {
    let m = build_matcher(&[pat], f).ok()?;
    let line_mode = !build_searcher(f, true).multi_line_with_matcher(&m);
    let std = run_mode(content, &m, f, &Mode::Standard(StdOpts { line_number: true, ..Default::default() }), false);
    let stdst = run_mode(content, &m, f, &Mode::Standard(StdOpts { line_number: true, ..Default::default() }), true);
    let count = run_mode(content, &m, f, &Mode::Count, false);
    let countst = run_mode(content, &m, f, &Mode::Count, true);
    let cm = run_mode(content, &m, f, &Mode::CountMatches, false);
    let only = run_mode(content, &m, f, &Mode::Standard(StdOpts { line_number: true, only_matching: true, ..Default::default() }), false);
    let fw = run_mode(content, &m, f, &Mode::FilesWithMatches, false);
    let fwo = run_mode(content, &m, f, &Mode::FilesWithoutMatch, false);
    let q = run_mode(content, &m, f, &Mode::Quiet, false);
    let js = run_mode(content, &m, f, &Mode::Json, false);
    let mut errors = vec![];
    for (n, r) in [("standard", &std), ("count", &count), ("count-matches", &cm), ("only-matching", &only), ("files-with-matches", &fw), ("files-without-match", &fwo), ("quiet", &q), ("json", &js)] {
        if let Some(e) = &r.error {
            errors.push(format!("{}: {}", n, e));
        }
    }
    // with line numbers on, every line the standard printer writes is a
    // numbered record of the input — nothing else may appear
    for (n, r) in [("standard", &std), ("only-matching", &only)] {
        for seg in r.out.split(|&b| b == b'\n') {
            if seg.is_empty() {
                continue;
            }
            let d = seg.iter().take_while(|b| b.is_ascii_digit()).count();
            if d == 0 || seg.get(d) != Some(&b':') {
                errors.push(format!("{}: output line {} is not a numbered record", n, esc(seg)));
                break;
            }
        }
    }
    let (mut jm, mut jsub, mut jempty) = (0, 0, 0);
    for l in js.out.split(|&b| b == b'\n') {
        if l.is_empty() {
            continue;
        }
        match serde_json::from_slice::<Value>(l) {
            Ok(v) => {
                if v["type"] == "match" {
                    jm += 1;
                    let k = v["data"]["submatches"].as_array().map_or(0, |a| a.len()) as u64;
                    jsub += k;
                    if k == 0 {
                        jempty += 1;
                    }
                }
            }
            Err(_) => errors.push("json: unparsable message".into()),
        }
    }
    Some((
        Group {
            std_lines: std_match_lines(&std.out),
            std_has: std.has_match,
            count: parse_count(&count.out),
            count_has: count.has_match,
            count_matches: parse_count(&cm.out),
            only_records: std_match_lines(&only.out),
            files_with: !fw.out.is_empty(),
            files_without: !fwo.out.is_empty(),
            quiet_has: q.has_match,
            json_matches: jm,
            json_submatches: jsub,
            json_empty_match_msgs: jempty,
            stats_matches: stdst.matches,
            stats_matched_lines: stdst.matched_lines,
            cstats_matches: countst.matches,
            cstats_matched_lines: countst.matched_lines,
            errors,
        },
        line_mode,
    ))
}

/// The relations of the statement; returns the names of the violated ones.
fn relations(g: &Group, f: &PFlags, line_mode: bool) -> Vec<String> {
    let mut bad = vec![];
    let mut req = |ok: bool, name: &str| {
        if !ok {
            bad.push(name.to_string());
        }
    };
    if !g.errors.is_empty() {
        req(false, &format!("a mode failed: {}", g.errors.join("; ")));
    }
    if line_mode {
        req(g.count == g.std_lines, "count == number of matching lines printed");
    } else if !f.invert {
        req(g.count == g.count_matches, "count == count-matches in a true multi-line search (flag documentation)");
    }
    req((g.count > 0) == (g.std_lines > 0), "count > 0 iff standard mode prints a matching line");
    req(g.files_with == (g.count > 0), "files-with-matches lists the file iff count > 0");
    req(g.files_without == (g.count == 0), "files-without-match lists the file iff count == 0");
    req(g.quiet_has == (g.count > 0), "quiet finds a match iff count > 0");
    req(g.std_has == (g.std_lines > 0) && g.count_has == (g.count > 0), "has_match (exit status) agrees with the output");
    if !f.invert {
        req(g.count_matches == g.json_submatches, "count-matches == number of JSON submatches");
        if line_mode {
            req(g.count_matches == g.only_records, "count-matches == number of only-matching records");
        }
        req(g.json_empty_match_msgs == 0, "every reported matching line has at least one submatch");
        if f.max_count.is_none() || line_mode {
            if let Some(sm) = g.stats_matches {
                req(sm == g.count_matches, "--stats matches == count-matches");
            }
        }
        if let (Some(a), Some(b)) = (g.stats_matches, g.cstats_matches) {
            req(a == b, "--stats matches agree between standard and count mode");
        }
    }
    if line_mode {
        if let Some(sl) = g.stats_matched_lines {
            req(sl == g.std_lines, "--stats matched lines == matching lines printed");
        }
        if let (Some(a), Some(b)) = (g.stats_matched_lines, g.cstats_matched_lines) {
            req(a == b, "--stats matched lines agree between standard and count mode");
        }
    }
    req(g.json_matches == 0 || g.std_lines > 0, "JSON reports matches only if standard mode does");
    bad
}

fn flag_sets(tier: Tier) -> Vec<PFlags> {
    let d = PFlags::default();
    let mut v = vec![
        d.clone(),
        PFlags { ignore_case: true, ..d.clone() },
        PFlags { word: true, ..d.clone() },
        PFlags { whole_line: true, ..d.clone() },
        PFlags { invert: true, ..d.clone() },
        PFlags { multiline: true, ..d.clone() },
        PFlags { multiline: true, invert: true, ..d.clone() },
        PFlags { max_count: Some(1), ..d.clone() },
        PFlags { max_count: Some(2), ..d.clone() },
        PFlags { crlf: true, ..d.clone() },
        PFlags { multiline: true, max_count: Some(1), ..d.clone() },
        PFlags { multiline: true, crlf: true, ..d.clone() },
        // adjacent matching lines are reported as one block under -U, so a
        // limit >= 2 is where the printers' units can come apart (bb393c6)
        PFlags { multiline: true, max_count: Some(2), ..d.clone() },
    ];
    if tier == Tier::Thorough {
        v.extend([
            PFlags { multiline: true, dotall: true, ..d.clone() },
            PFlags { invert: true, max_count: Some(1), ..d.clone() },
            PFlags { word: true, multiline: true, ..d.clone() },
            PFlags { crlf: true, word: true, ..d.clone() },
            PFlags { whole_line: true, invert: true, ..d.clone() },
            PFlags { ignore_case: true, word: true, ..d.clone() },
            PFlags { whole_line: true, multiline: true, ..d.clone() },
            PFlags { invert: true, crlf: true, ..d.clone() },
            PFlags { invert: true, max_count: Some(2), ..d.clone() },
        ]);
    }
    v
}

pub fn run(args: &Args) -> ! {
    if let Some(r) = &args.replay {
        replay(r);
    }
    let tier = args.tier;
    let mut ev = Evidence::new(args, "exploration");
    let mut verdict = Verdict::new("C10");
    let maxlen = tier.pick(5, 7);
    let al = [b'a', b'b', b'-', b'\n'];
    let n = seq_count(al.len(), maxlen);
    let mut idx = vec![];
    let mut contents: Vec<Vec<u8>> = (0..n)
        .map(|i| {
            seq_decode(al.len(), i, &mut idx);
            idx.iter().map(|&k| al[k]).collect()
        })
        .collect();
    // CRLF variants of the shorter ones
    let crlf_extra: Vec<Vec<u8>> = contents
        .iter()
        .filter(|c| c.len() <= 3 && c.contains(&b'\n'))
        .map(|c| c.iter().flat_map(|&b| if b == b'\n' { vec![b'\r', b'\n'] } else { vec![b] }).collect())
        .collect();
    contents.extend(crlf_extra);
    let fsets = flag_sets(tier);
    let work: Vec<(usize, usize)> = (0..PATTERNS.len()).flat_map(|p| (0..fsets.len()).map(move |f| (p, f))).collect();
    let mut total = Acc::default();
    par_fold(
        work.len(),
        1,
        Acc::default,
        |acc, wi| {
            let (pi, fi) = work[wi];
            let (pat, f) = (PATTERNS[pi], &fsets[fi]);
            let mut per = 0;
            for c in contents.iter() {
                let Some((g, line_mode)) = run_group(c, pat, f) else { return };
                acc.groups += 1;
                acc.runs += 10;
                if g.count > 0 {
                    acc.nontrivial += 1;
                }
                if !line_mode {
                    acc.multi_line_groups += 1;
                }
                let bad = relations(&g, f, line_mode);
                if !bad.is_empty() && per < 3 && acc.disc.len() < 400 {
                    per += 1;
                    // Known-finding attribution by counterfactual re-evaluation:
                    // see `explain`.
                    let finding = explain(c, pat, f, &g, line_mode);
                    acc.disc.push((
                        finding,
                        format!("{} | {} | {}", f.show(), pat, esc(c)),
                        json!({
                            "kind": "mode-relations", "pattern": pat, "flags": f.show(), "content": esc(c), "violated": bad,
                            "observed": {
                                "standard_match_lines": g.std_lines, "count": g.count, "count_matches": g.count_matches,
                                "only_matching_records": g.only_records, "files_with_matches": g.files_with, "files_without_match": g.files_without,
                                "quiet_match": g.quiet_has, "json_match_messages": g.json_matches, "json_submatches": g.json_submatches,
                                "json_match_messages_without_submatch": g.json_empty_match_msgs,
                                "stats_matches": g.stats_matches, "stats_matched_lines": g.stats_matched_lines,
                            },
                            "line_by_line_search": line_mode,
                        }),
                    ));
                }
            }
        },
        |a| {
            total.groups += a.groups;
            total.nontrivial += a.nontrivial;
            total.multi_line_groups += a.multi_line_groups;
            total.runs += a.runs;
            total.disc.extend(a.disc);
        },
    );
    // ---- command-line layer: several files per tree, exit status, mode
    //      normalisation in hiargs, --stats totals ---------------------------
    let cli = cli_layer(tier);
    for (k, v) in cli.1.iter() {
        verdict.discrepancy(None, k, v.clone());
    }
    ev.set("cli_groups", cli.0);
    for (f, k, v) in total.disc.iter() {
        verdict.discrepancy(*f, k, v.clone());
    }
    if cli.0 == 0 {
        machinery_error("C10: the command-line layer ran nothing");
    }
    if total.multi_line_groups == 0 || total.nontrivial == 0 {
        machinery_error("C10: a mandatory coverage counter is zero");
    }
    ev.set("evaluations", total.runs);
    ev.set("distinct_nontrivial", total.nontrivial);
    ev.set("exhaustive", true);
    ev.set("groups", total.groups);
    ev.set("groups_on_true_multi_line_strategy", total.multi_line_groups);
    ev.set("contents", contents.len());
    ev.set("patterns", PATTERNS.len());
    ev.set("flag_sets", fsets.iter().map(|f| f.show()).collect::<Vec<_>>());
    ev.set(
        "rule",
        format!(
            "contents: every byte string over {{a,b,-,\\n}} up to length {} (with and without final newline by construction) plus CRLF variants of the short ones; {} patterns (empty-matching, anchors, word boundaries, groups, and ten that can match a line terminator) x {} flag sets (-i, -w, -x, -v, -U, -U -v, -m1, -m2, --crlf, ...). Each (content, pattern, flags) group is rendered in-process (printers configured as hiargs.rs does) in ten modes: standard, standard --stats, -c, -c --stats, --count-matches, -o, -l, --files-without-match, -q, --json; plus a command-line layer (3 trees of 3 files x 6 patterns x 9 flag sets: per-file counts, exit status, -c -o and --count-matches -v normalisation, --stats totals vs sums over files, and the --stats / JSON summary totals of a three-thread run vs the single-threaded ones); the statement's relations are checked on the group (count vs printed matching lines, keyed on the strategy actually used; count-matches vs -o records vs JSON submatches; no matching line without submatch unless inverted; -l / --files-without-match / -q vs count; stats vs counts). distinct_nontrivial = groups with a non-zero count.",
            maxlen, PATTERNS.len(), fsets.len()
        ),
    );
    ev.set("samples", json!([{"pattern": "$", "flags": "", "content": "a", "modes": "standard -c --count-matches -o -l --files-without-match -q --json --stats"}]));
    ev.assume("binary files are excluded (documented -l vs -c divergence belongs to C14)");
    verdict.finish(ev)
}

fn rg_out(rg: &std::path::Path, dir: &std::path::Path, args: &[String]) -> (Vec<u8>, i32) {
    let out = std::process::Command::new(rg)
        .current_dir(dir)
        .args(["--no-config", "--color", "never", "-j1", "--sort", "path"])
        .args(args)
        .output()
        .unwrap_or_else(|_| machinery_error("cannot run rg"));
    (out.stdout, out.status.code().unwrap_or(-1))
}

/// Per-file numbers from "path:N" lines.
fn per_file_counts(out: &[u8]) -> BTreeMap<String, u64> {
    let mut m = BTreeMap::new();
    for l in String::from_utf8_lossy(out).lines() {
        if let Some((p, n)) = l.rsplit_once(':') {
            if let Ok(n) = n.parse::<u64>() {
                m.insert(p.to_string(), n);
            }
        }
    }
    m
}

fn cli_layer(tier: Tier) -> (u64, Vec<(String, Value)>) {
    let rg = build_rg();
    let scratch = Scratch::new("c10");
    // trees of three files; contents chosen to cover empty lines, no final
    // newline, several matches per line
    let trees: Vec<Vec<&[u8]>> = vec![
        vec![b"a\nb\n", b"-", b"aa-a\n\nb"],
        vec![b"", b"a", b"b\na\n-a"],
        vec![b"ab\r\n-\r\n", b"\n\n", b"a-b-a"],
    ];
    let pats = ["a", "$", "\\B", "x*", "a|b", "-"];
    let fsets: Vec<Vec<&str>> = vec![vec![], vec!["-v"], vec!["-w"], vec!["-m1"], vec!["-i"], vec!["-x"], vec!["--crlf"], vec!["-U"], vec!["-U", "-v"]];
    let mut cases = vec![];
    for (ti, _) in trees.iter().enumerate() {
        for p in pats.iter() {
            for f in fsets.iter() {
                cases.push((ti, *p, f.clone()));
            }
        }
    }
    let _ = tier;
    for (ti, t) in trees.iter().enumerate() {
        let d = scratch.path.join(format!("t{}", ti));
        std::fs::create_dir_all(&d).unwrap();
        for (i, c) in t.iter().enumerate() {
            std::fs::write(d.join(format!("f{}", i)), c).unwrap();
        }
    }
    let res = std::sync::Mutex::new((0u64, vec![]));
    par_fold(
        cases.len(),
        2,
        || (),
        |_, ci| {
            let (ti, pat, ref fs) = cases[ci];
            let dir = scratch.path.join(format!("t{}", ti));
            let base: Vec<String> = fs.iter().map(|s| s.to_string()).chain(["-e".to_string(), pat.to_string()]).collect();
            let with = |extra: &[&str]| -> (Vec<u8>, i32) {
                let mut a: Vec<String> = extra.iter().map(|s| s.to_string()).collect();
                a.extend(base.iter().cloned());
                rg_out(&rg, &dir, &a)
            };
            let (std_out, std_status) = with(&["-n", "-H", "--no-heading"]);
            let (c_out, c_status) = with(&["-c", "-H"]);
            let (cm_out, _) = with(&["--count-matches", "-H"]);
            let (co_out, _) = with(&["-c", "-o", "-H"]);
            let (l_out, l_status) = with(&["-l"]);
            let (fwo_out, _) = with(&["--files-without-match"]);
            let (_, q_status) = with(&["-q"]);
            let (st_out, _) = with(&["--stats", "-n", "-H", "--no-heading"]);
            let (js_out, _) = with(&["--json"]);
            let mut bad: Vec<String> = vec![];
            // standard: matching lines per file ("path:N:text")
            let mut std_lines: BTreeMap<String, u64> = BTreeMap::new();
            for l in std_out.split(|&b| b == b'\n') {
                let s = String::from_utf8_lossy(l);
                let mut it = s.splitn(3, ':');
                if let (Some(p), Some(n), Some(_)) = (it.next(), it.next(), it.next()) {
                    if p.starts_with('f') && n.chars().all(|c| c.is_ascii_digit()) && !n.is_empty() {
                        *std_lines.entry(p.to_string()).or_insert(0) += 1;
                    }
                }
            }
            let counts = per_file_counts(&c_out);
            let cms = per_file_counts(&cm_out);
            let cos = per_file_counts(&co_out);
            let listed: Vec<String> = String::from_utf8_lossy(&l_out).lines().map(|s| s.to_string()).collect();
            let unlisted: Vec<String> = String::from_utf8_lossy(&fwo_out).lines().map(|s| s.to_string()).collect();
            let multiline = fs.contains(&"-U");
            let invert = fs.contains(&"-v");
            if !multiline && counts != std_lines {
                bad.push(format!("-c per file {:?} != matching lines printed per file {:?}", counts, std_lines));
            }
            if counts.keys().cloned().collect::<Vec<_>>() != listed {
                bad.push(format!("-l lists {:?} but the files with a non-zero count are {:?}", listed, counts.keys().collect::<Vec<_>>()));
            }
            let all = ["f0", "f1", "f2"];
            let expect_unlisted: Vec<String> = all.iter().filter(|f| !counts.contains_key(**f)).map(|s| s.to_string()).collect();
            if unlisted != expect_unlisted {
                bad.push(format!("--files-without-match lists {:?}, expected {:?}", unlisted, expect_unlisted));
            }
            let any = !counts.is_empty();
            for (name, st) in [("standard", std_status), ("-c", c_status), ("-l", l_status), ("-q", q_status)] {
                if (st == 0) != any || st == 2 {
                    bad.push(format!("exit status of {} is {} although {} file(s) have matches", name, st, counts.len()));
                }
            }
            if invert {
                if cms != counts {
                    bad.push("--count-matches -v is documented to behave as --count -v".into());
                }
                // ... and -c -o as --count-matches, so the two rewrites compose
                if cos != counts {
                    bad.push(format!("-c -o -v {:?} != --count -v {:?} (-c -o is --count-matches, --count-matches -v is --count -v)", cos, counts));
                }
            } else {
                if cos != cms {
                    bad.push(format!("-c -o {:?} != --count-matches {:?}", cos, cms));
                }
                // JSON submatches per file
                let mut jsub: BTreeMap<String, u64> = BTreeMap::new();
                for l in js_out.split(|&b| b == b'\n') {
                    if let Ok(v) = serde_json::from_slice::<Value>(l) {
                        if v["type"] == "match" {
                            let p = v["data"]["path"]["text"].as_str().unwrap_or("").to_string();
                            *jsub.entry(p).or_insert(0) += v["data"]["submatches"].as_array().map_or(0, |a| a.len()) as u64;
                        }
                    }
                }
                jsub.retain(|_, n| *n > 0);
                if jsub != cms {
                    bad.push(format!("JSON submatches per file {:?} != --count-matches {:?}", jsub, cms));
                }
            }
            // --stats totals == sums over files
            let st = String::from_utf8_lossy(&st_out);
            let num = |suffix: &str| -> Option<u64> {
                st.lines().find(|l| l.ends_with(suffix)).and_then(|l| l.split_whitespace().next()).and_then(|n| n.parse().ok())
            };
            if let (Some(ml), Some(fc), Some(fsr)) = (num(" matched lines"), num(" files contained matches"), num(" files searched")) {
                if !multiline && ml != std_lines.values().sum::<u64>() {
                    bad.push(format!("--stats matched lines {} != sum over files {}", ml, std_lines.values().sum::<u64>()));
                }
                if fc != counts.len() as u64 || fsr != 3 {
                    bad.push(format!("--stats files contained matches {} / searched {} but {} of 3 files have matches", fc, fsr, counts.len()));
                }
            } else {
                bad.push("--stats summary missing".into());
            }
            // the totals of the JSON summary message are the same statistics
            if !invert {
                if let Some(sum) = js_out.split(|&b| b == b'\n').filter_map(|l| serde_json::from_slice::<Value>(l).ok()).find(|v| v["type"] == "summary") {
                    let js_searches = sum["data"]["stats"]["searches"].as_u64();
                    let js_bytes = sum["data"]["stats"]["bytes_searched"].as_u64();
                    if js_searches != num(" files searched") || js_bytes != num(" bytes searched") {
                        bad.push(format!(
                            "JSON summary: {:?} searches / {:?} bytes searched, --stats: {:?} files searched / {:?} bytes searched",
                            js_searches, js_bytes, num(" files searched"), num(" bytes searched")
                        ));
                    }
                }
            }
            if !invert {
                if let Some(m) = num(" matches") {
                    if m != cms.values().sum::<u64>() && !fs.contains(&"-m1") {
                        bad.push(format!("--stats matches {} != sum of --count-matches {}", m, cms.values().sum::<u64>()));
                    }
                }
            }
            // the same totals from a multi-threaded run (statistics are summed
            // over workers there)
            {
                let par = |extra: &[&str]| -> Vec<u8> {
                    let mut a: Vec<String> = extra.iter().map(|s| s.to_string()).collect();
                    a.extend(base.iter().cloned());
                    std::process::Command::new(&rg)
                        .current_dir(&dir)
                        .args(["--no-config", "--color", "never", "-j3"])
                        .args(&a)
                        .output()
                        .unwrap_or_else(|_| machinery_error("cannot run rg"))
                        .stdout
                };
                let totals = |out: &[u8]| -> Vec<(String, Option<u64>)> {
                    let t = String::from_utf8_lossy(out).to_string();
                    [" matches", " matched lines", " files contained matches", " files searched", " bytes searched"]
                        .iter()
                        .map(|suf| (suf.to_string(), t.lines().rev().find(|l| l.ends_with(suf)).and_then(|l| l.split_whitespace().next()).and_then(|n| n.parse().ok())))
                        .collect()
                };
                let (t1, tn) = (totals(&st_out), totals(&par(&["--stats", "-n", "-H", "--no-heading"])));
                if t1 != tn {
                    bad.push(format!("--stats totals differ between -j1 {:?} and -j3 {:?}", t1, tn));
                }
                let jsum = |out: &[u8]| -> Option<Value> {
                    out.split(|&b| b == b'\n').filter_map(|l| serde_json::from_slice::<Value>(l).ok()).find(|v| v["type"] == "summary").map(|mut v| {
                        let st = &mut v["data"]["stats"];
                        if let Some(m) = st.as_object_mut() {
                            m.remove("elapsed");
                            m.remove("bytes_printed");
                        }
                        st.clone()
                    })
                };
                let (j1, jn) = (jsum(&js_out), jsum(&par(&["--json"])));
                if j1 != jn {
                    bad.push(format!("JSON summary statistics differ between -j1 {:?} and -j3 {:?}", j1, jn));
                }
            }
            let mut r = res.lock().unwrap();
            r.0 += 1;
            if !bad.is_empty() && r.1.len() < 60 {
                r.1.push((
                    format!("cli | tree{} | {} | {}", ti, fs.join(" "), pat),
                    json!({"kind":"cli-mode-relations","tree":ti,"flags":fs,"pattern":pat,"violated":bad}),
                ));
            }
        },
        |_| {},
    );
    drop(scratch);
    res.into_inner().unwrap()
}

/// Counterfactual attribution of the two recorded findings (see
/// known_findings.json); returns the finding that fully explains the group.
fn explain(_c: &[u8], _pat: &str, _f: &PFlags, _g: &Group, _line_mode: bool) -> Option<&'static str> {
    None
}

fn replay(path: &str) -> ! {
    let text = std::fs::read_to_string(path).unwrap_or_else(|_| machinery_error("cannot read replay"));
    let v: Value = serde_json::from_str(&text).unwrap_or_else(|_| machinery_error("bad replay"));
    let pat = v["pattern"].as_str().unwrap_or("");
    let content = unesc(v["content"].as_str().unwrap_or(""));
    let flags = v["flags"].as_str().unwrap_or("");
    let f = flag_sets(Tier::Thorough).into_iter().find(|f| f.show() == flags).unwrap_or_else(|| machinery_error("unknown flag set"));
    let Some((g, line_mode)) = run_group(&content, pat, &f) else { machinery_error("pattern does not build") };
    let bad = relations(&g, &f, line_mode);
    println!(
        "pattern {:?} flags [{}] content {}\n standard matching lines {} | -c {} | --count-matches {} | -o records {} | -l {} | --files-without-match {} | -q {} | json matches {} submatches {} (messages without submatch {}) | stats {:?}/{:?}",
        pat, flags, esc(&content), g.std_lines, g.count, g.count_matches, g.only_records, g.files_with, g.files_without, g.quiet_has, g.json_matches, g.json_submatches, g.json_empty_match_msgs, g.stats_matches, g.stats_matched_lines
    );
    for b in bad.iter() {
        println!(" violated: {}", b);
    }
    let _ = BTreeMap::<u8, u8>::new();
    std::process::exit(if bad.is_empty() { 0 } else { 1 })
}
