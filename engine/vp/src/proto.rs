//! E4 — explicit-state model of the parallel walker's work-distribution and
//! termination protocol (crates/ignore/src/walk.rs: Stack::{push,pop,steal},
//! Worker::{run,get_work,run_one,...}), explored over ALL interleavings (no
//! preemption bound), and bound to the implementation in both directions:
//!
//! * every implementation trace produced by the E3 explorer is replayed
//!   through `step` (same worker, same next hooked point, same visits, same
//!   enabled set as the scheduler computed) — trace inclusion;
//! * a set of model paths covering every model state reachable under the
//!   scheduler's enabledness rule is converted to schedules and executed on
//!   the implementation, and the resulting traces are replayed the same way.
//!
//! The model is deliberately boring: deques are vectors, a step is the code
//! between two hooked points.

use std::collections::HashMap;

use ignore::verif::{Event, Point, Trace};

/// The tree as the walker sees it: node ids, children in readdir order.
#[derive(Clone, Debug)]
pub struct PTree {
    pub names: Vec<String>,
    pub is_dir: Vec<bool>,
    pub kids: Vec<Vec<u8>>,
    pub roots: Vec<u8>,
}

#[derive(Clone, Copy, Debug, PartialEq, Eq, Hash, PartialOrd, Ord)]
pub enum Msg {
    Work(u8),
    Quit,
}

/// A worker parked at a hooked point, with the operation that follows it
/// still to be executed.
#[derive(Clone, Copy, Debug, PartialEq, Eq, Hash)]
pub enum Pc {
    Start,
    /// about to pop from the own deque; `inner`: inside the idle loop
    Pop { inner: bool },
    /// about to attempt a steal from the k-th victim (index + 1 + k mod n)
    Steal { inner: bool, k: u8, retry: bool },
    IsQuitNow { value: Option<Msg> },
    /// about to push child `next` of `node`
    Push { node: u8, next: u8 },
    QuitNow,
    /// about to push a Quit message, then exit
    PushQuit,
    Deactivate,
    Activate { value: Msg },
    Idle,
    Exit,
}

impl Pc {
    pub fn point(&self) -> Point {
        match self {
            Pc::Start => Point::Start,
            Pc::Pop { .. } => Point::Pop,
            Pc::Steal { .. } => Point::Steal,
            Pc::IsQuitNow { .. } => Point::IsQuitNow,
            Pc::Push { .. } | Pc::PushQuit => Point::Push,
            Pc::QuitNow => Point::QuitNow,
            Pc::Deactivate => Point::Deactivate,
            Pc::Activate { .. } => Point::Activate,
            Pc::Idle => Point::Idle,
            Pc::Exit => Point::Exit,
        }
    }
}

#[derive(Clone, Debug, PartialEq, Eq, Hash)]
pub struct PState {
    pub pcs: Vec<Pc>,
    pub deques: Vec<Vec<Msg>>,
    pub active: u8,
    pub quit: bool,
    pub visited: Vec<u8>,
    pub nvisits: u8,
    pub quit_returned: bool,
    pub retries: u8,
}

#[derive(Clone, Copy, Debug)]
pub struct Params {
    pub workers: usize,
    pub quit_at: Option<usize>,
    pub retry_budget: u8,
    /// 0 = the walker's protocol; 1..=3 = deliberately broken variants used
    /// only to show that the exploration's oracles can fail (self-test)
    pub mutant: u8,
}

#[derive(Clone, Debug, Default)]
pub struct StepInfo {
    pub visited: Option<u8>,
    pub returned_quit: bool,
    pub stole: bool,
    pub double_visit: bool,
}

pub fn init(tree: &PTree, p: &Params) -> PState {
    let n = p.workers;
    let mut deques = vec![vec![]; n];
    for (i, r) in tree.roots.iter().enumerate() {
        deques[i % n].push(Msg::Work(*r));
    }
    PState {
        pcs: vec![Pc::Start; n],
        deques,
        active: n as u8,
        quit: false,
        visited: vec![0; tree.names.len()],
        nvisits: 0,
        quit_returned: false,
        retries: 0,
    }
}

fn received(inner: bool, m: Option<Msg>) -> Pc {
    match (inner, m) {
        (false, v) => Pc::IsQuitNow { value: v },
        (true, Some(m)) => Pc::Activate { value: m },
        (true, None) => Pc::Idle,
    }
}

/// Execute the operation that follows worker `w`'s current point, up to its
/// arrival at the next point. If that next point is a steal attempt,
/// `retry_on_arrival` says whether the attempt will be answered with Retry.
pub fn step(tree: &PTree, p: &Params, s: &PState, w: usize, retry_on_arrival: bool) -> (PState, StepInfo) {
    let n = p.workers;
    let mut t = s.clone();
    let mut info = StepInfo::default();
    let next = match s.pcs[w] {
        Pc::Start => Pc::Pop { inner: false },
        Pc::Pop { inner } => match t.deques[w].pop() {
            Some(m) => received(inner, Some(m)),
            None => {
                if n > 1 {
                    Pc::Steal { inner, k: 0, retry: false }
                } else {
                    received(inner, None)
                }
            }
        },
        Pc::Steal { inner, k, retry } => {
            let victim = (w + 1 + k as usize) % n;
            let mut got = None;
            if !retry && !t.deques[victim].is_empty() {
                // crossbeam-deque 0.8 steal_batch_and_pop, LIFO flavour, run
                // without interference: takes min((len-1)/2, 31) + 1 messages
                // from the front; the last one taken is returned, the others
                // are appended to the thief's deque in the order taken
                let len = t.deques[victim].len();
                let batch = ((len - 1) / 2).min(31);
                let taken: Vec<Msg> = t.deques[victim].drain(0..batch + 1).collect();
                got = Some(taken[batch]);
                if p.mutant == 2 {
                    // broken variant: the stolen message also stays with the victim
                    t.deques[victim].insert(0, taken[batch]);
                }
                let dst = &mut t.deques[w];
                dst.extend_from_slice(&taken[..batch]);
                info.stole = true;
            }
            match got {
                Some(m) => received(inner, Some(m)),
                None => {
                    if (k as usize) + 1 < n - 1 {
                        Pc::Steal { inner, k: k + 1, retry: false }
                    } else {
                        received(inner, None)
                    }
                }
            }
        }
        Pc::IsQuitNow { value } => {
            let v = if t.quit { Some(Msg::Quit) } else { value };
            match v {
                Some(Msg::Work(node)) => {
                    let node_u = node as usize;
                    if t.visited[node_u] > 0 {
                        info.double_visit = true;
                    }
                    t.visited[node_u] = t.visited[node_u].saturating_add(1);
                    info.visited = Some(node);
                    let idx = t.nvisits as usize;
                    t.nvisits += 1;
                    if p.quit_at == Some(idx) {
                        info.returned_quit = true;
                        t.quit_returned = true;
                        Pc::QuitNow
                    } else if tree.is_dir[node_u] && !tree.kids[node_u].is_empty() {
                        Pc::Push { node, next: 0 }
                    } else {
                        Pc::Pop { inner: false }
                    }
                }
                // broken variant 1: a received Quit is not re-broadcast
                Some(Msg::Quit) => {
                    if p.mutant == 1 {
                        Pc::Exit
                    } else {
                        Pc::PushQuit
                    }
                }
                None => Pc::Deactivate,
            }
        }
        Pc::Push { node, next } => {
            let kids = &tree.kids[node as usize];
            t.deques[w].push(Msg::Work(kids[next as usize]));
            if (next as usize) + 1 < kids.len() {
                Pc::Push { node, next: next + 1 }
            } else {
                Pc::Pop { inner: false }
            }
        }
        Pc::QuitNow => {
            t.quit = true;
            Pc::Pop { inner: false }
        }
        Pc::PushQuit => {
            t.deques[w].push(Msg::Quit);
            Pc::Exit
        }
        Pc::Deactivate => {
            t.active -= 1;
            if t.active == 0 {
                // broken variant 3: the last worker out leaves without telling anyone
                if p.mutant == 3 {
                    Pc::Exit
                } else {
                    Pc::PushQuit
                }
            } else {
                Pc::Pop { inner: true }
            }
        }
        Pc::Activate { value } => {
            t.active += 1;
            Pc::IsQuitNow { value: Some(value) }
        }
        Pc::Idle => Pc::Pop { inner: true },
        Pc::Exit => Pc::Exit,
    };
    let next = match next {
        Pc::Steal { inner, k, .. } => {
            if retry_on_arrival {
                t.retries += 1;
            }
            Pc::Steal { inner, k, retry: retry_on_arrival }
        }
        other => other,
    };
    t.pcs[w] = next;
    (t, info)
}

/// A step that changes nothing but the stepping worker's own program counter
/// while it polls in the idle loop.
fn is_spin(s: &PState, t: &PState, w: usize) -> bool {
    let polling = matches!(s.pcs[w], Pc::Idle | Pc::Pop { inner: true } | Pc::Steal { inner: true, .. });
    polling && s.deques == t.deques && s.active == t.active && s.quit == t.quit && s.nvisits == t.nvisits && s.retries == t.retries
}

// ---------------------------------------------------------------------------
// The scheduler's enabledness rule, emulated (ignore::verif::State)

#[derive(Clone, Copy, Debug, PartialEq, Eq)]
enum St {
    Ready,
    Waiting(u64),
    Exited,
}

#[derive(Clone, Debug)]
pub struct Emu {
    status: Vec<St>,
    epoch: u64,
    pending: Vec<bool>,
    recv_epoch: Vec<u64>,
    had_retry: Vec<bool>,
}

impl Emu {
    pub fn new(n: usize) -> Emu {
        Emu { status: vec![St::Ready; n], epoch: 0, pending: vec![false; n], recv_epoch: vec![0; n], had_retry: vec![false; n] }
    }
    fn is_enabled(&self, j: usize) -> bool {
        match self.status[j] {
            St::Ready => true,
            St::Waiting(e) => self.epoch > e,
            St::Exited => false,
        }
    }
    /// Worker `w` arrives at `point` (after an operation during which it
    /// `stole` messages or not).
    pub fn arrive(&mut self, w: usize, point: Point, retry: bool, stole: bool) {
        if stole {
            self.pending[w] = true;
        }
        if self.pending[w] {
            self.epoch += 1;
            self.pending[w] = false;
        }
        match point {
            Point::Pop => {
                self.recv_epoch[w] = self.epoch;
                self.had_retry[w] = false;
            }
            Point::Push => self.pending[w] = true,
            Point::Idle => {
                if !self.had_retry[w] {
                    self.status[w] = St::Waiting(self.recv_epoch[w]);
                }
            }
            Point::Exit => self.status[w] = St::Exited,
            Point::Steal => {
                if retry {
                    self.had_retry[w] = true;
                }
            }
            _ => {}
        }
    }
    /// Enabled workers in canonical order and whether the arriving worker is
    /// itself enabled.
    pub fn enabled(&self, arriving: Option<usize>) -> (Vec<usize>, bool) {
        let mut en = vec![];
        let mut self_enabled = false;
        if let Some(w) = arriving {
            if self.is_enabled(w) {
                en.push(w);
                self_enabled = true;
            }
        }
        for j in 0..self.status.len() {
            if Some(j) != arriving && self.is_enabled(j) {
                en.push(j);
            }
        }
        (en, self_enabled)
    }
    pub fn choose(&mut self, w: usize) {
        self.status[w] = St::Ready;
    }
}

// ---------------------------------------------------------------------------
// Trace inclusion: an implementation trace replayed through the model

/// Replays `trace` through the model; `Err` describes the first point at
/// which the implementation did something the model does not do.
pub fn replay_trace(tree: &PTree, p: &Params, trace: &Trace) -> Result<PState, String> {
    let n = p.workers;
    if trace.workers != n {
        return Err(format!("trace has {} workers, model {}", trace.workers, n));
    }
    let mut s = init(tree, p);
    let mut emu = Emu::new(n);
    let mut running: Option<usize> = None;
    let mut notes: Vec<(Option<usize>, String)> = vec![];
    let mut first = true;
    for (i, ev) in trace.events.iter().enumerate() {
        match ev {
            Event::Note { worker, text } => notes.push((*worker, text.clone())),
            Event::Step(st) => {
                if first {
                    first = false;
                    if st.worker != usize::MAX || st.point != Point::Start {
                        return Err(format!("event {}: the first decision is not the start decision", i));
                    }
                    let (en, _) = emu.enabled(None);
                    if en != st.enabled {
                        return Err(format!("event {}: enabled {:?}, model {:?}", i, st.enabled, en));
                    }
                } else {
                    let Some(w) = running else {
                        return Err(format!("event {}: a step although no worker was chosen", i));
                    };
                    if st.worker != w {
                        return Err(format!("event {}: worker {} arrived, the scheduled worker was {}", i, st.worker, w));
                    }
                    let (t, info) = step(tree, p, &s, w, st.retry);
                    if t.pcs[w].point() != st.point {
                        return Err(format!(
                            "event {}: worker {} arrived at {:?}; the model ({:?} -> {:?}) expects {:?}",
                            i,
                            w,
                            st.point,
                            s.pcs[w],
                            t.pcs[w],
                            t.pcs[w].point()
                        ));
                    }
                    if st.retry && !matches!(t.pcs[w], Pc::Steal { .. }) {
                        return Err(format!("event {}: retry flag on a non-steal point", i));
                    }
                    // the visits of this operation
                    let mut want = vec![];
                    if let Some(node) = info.visited {
                        want.push((Some(w), format!("visit {}", tree.names[node as usize])));
                        if info.returned_quit {
                            want.push((Some(w), "visitor returns Quit".to_string()));
                        }
                    }
                    if notes != want {
                        return Err(format!("event {}: worker {} did {:?}; the model expects {:?}", i, w, notes, want));
                    }
                    if info.double_visit {
                        return Err(format!("event {}: the model itself visits an entry twice", i));
                    }
                    notes.clear();
                    emu.arrive(w, st.point, st.retry, info.stole);
                    s = t;
                    let (en, se) = emu.enabled(Some(w));
                    if en != st.enabled || se != st.self_enabled {
                        return Err(format!("event {}: enabled {:?} (self {}), model {:?} (self {})", i, st.enabled, st.self_enabled, en, se));
                    }
                }
                if st.enabled.is_empty() {
                    running = None;
                } else {
                    if st.choice >= st.enabled.len() {
                        return Err(format!("event {}: choice out of range", i));
                    }
                    let c = st.enabled[st.choice];
                    emu.choose(c);
                    running = Some(c);
                }
            }
        }
    }
    if !notes.is_empty() {
        return Err(format!("trailing notes {:?}", notes));
    }
    Ok(s)
}

// ---------------------------------------------------------------------------
// Exhaustive exploration of the model

#[derive(Clone, Debug)]
pub struct ModelViolation {
    pub why: String,
    /// (worker, retry-on-arrival) for every step from the initial state
    pub path: Vec<(usize, bool)>,
}

#[derive(Default, Debug)]
pub struct Explored {
    pub states: usize,
    pub transitions: usize,
    pub spin_transitions: usize,
    pub terminal_states: usize,
    pub nontrivial_sccs: usize,
    pub max_depth: usize,
    pub capped: bool,
    pub violations: Vec<ModelViolation>,
}

struct Graph {
    states: Vec<PState>,
    index: HashMap<PState, u32>,
    parent: Vec<(u32, u8, bool)>,
    depth: Vec<u32>,
    adj: Vec<Vec<(u32, bool)>>,
}

fn path_to(g: &Graph, mut i: u32) -> Vec<(usize, bool)> {
    let mut out = vec![];
    while i != 0 {
        let (p, w, r) = g.parent[i as usize];
        out.push((w as usize, r));
        i = p;
    }
    out.reverse();
    out
}

fn all_exited(s: &PState) -> bool {
    s.pcs.iter().all(|p| *p == Pc::Exit)
}

/// Breadth-first exploration of every interleaving (and every placement of
/// at most `retry_budget` Retry answers) of the model.
pub fn explore(tree: &PTree, p: &Params, cap: usize) -> Explored {
    let mut g = Graph { states: vec![], index: HashMap::new(), parent: vec![], depth: vec![], adj: vec![] };
    let s0 = init(tree, p);
    g.index.insert(s0.clone(), 0);
    g.states.push(s0);
    g.parent.push((0, 0, false));
    g.depth.push(0);
    g.adj.push(vec![]);
    let mut out = Explored::default();
    let mut head = 0usize;
    while head < g.states.len() {
        let s = g.states[head].clone();
        let here = head as u32;
        head += 1;
        if head % 4096 == 0 {
            crate::core::tick();
        }
        if all_exited(&s) {
            out.terminal_states += 1;
            if !s.quit_returned {
                let bad: Vec<String> = (0..tree.names.len()).filter(|&i| s.visited[i] != 1).map(|i| format!("{} x{}", tree.names[i], s.visited[i])).collect();
                if !bad.is_empty() {
                    out.violations.push(ModelViolation { why: format!("all workers exited, visited multiset differs: {:?}", bad), path: path_to(&g, here) });
                }
            }
            // undelivered work after normal termination
            continue;
        }
        for w in 0..p.workers {
            if s.pcs[w] == Pc::Exit {
                continue;
            }
            for retry in [false, true] {
                if retry && s.retries >= p.retry_budget {
                    continue;
                }
                let (t, info) = step(tree, p, &s, w, retry);
                if retry && !matches!(t.pcs[w], Pc::Steal { .. }) {
                    continue; // a Retry answer only exists at a steal attempt
                }
                let spin = is_spin(&s, &t, w);
                out.transitions += 1;
                if spin {
                    out.spin_transitions += 1;
                }
                let ti = match g.index.get(&t) {
                    Some(&i) => i,
                    None => {
                        let i = g.states.len() as u32;
                        g.index.insert(t.clone(), i);
                        g.states.push(t);
                        g.parent.push((here, w as u8, retry));
                        g.depth.push(g.depth[here as usize] + 1);
                        g.adj.push(vec![]);
                        out.max_depth = out.max_depth.max(g.depth[i as usize] as usize);
                        i
                    }
                };
                g.adj[here as usize].push((ti, spin));
                if info.double_visit && out.violations.len() < 5 {
                    out.violations.push(ModelViolation { why: format!("entry {} visited twice", tree.names[info.visited.unwrap() as usize]), path: path_to(&g, ti) });
                }
            }
        }
        if g.states.len() > cap {
            out.capped = true;
            break;
        }
    }
    out.states = g.states.len();
    if out.capped {
        return out;
    }
    // Strongly connected components (iterative Tarjan). Termination under
    // weak fairness holds iff (a) every cycle consists of idle-polling steps
    // only and (b) every component without an outgoing edge is a state in
    // which all workers have exited.
    let n = g.states.len();
    let mut idx = vec![u32::MAX; n];
    let mut low = vec![0u32; n];
    let mut on = vec![false; n];
    let mut comp = vec![u32::MAX; n];
    let mut stack: Vec<u32> = vec![];
    let mut counter = 0u32;
    let mut ncomp = 0u32;
    let mut call: Vec<(u32, usize)> = vec![];
    for root in 0..n as u32 {
        if idx[root as usize] != u32::MAX {
            continue;
        }
        call.push((root, 0));
        if root % 4096 == 0 {
            crate::core::tick();
        }
        while let Some(&mut (v, ref mut ei)) = call.last_mut() {
            let vu = v as usize;
            if *ei == 0 {
                idx[vu] = counter;
                low[vu] = counter;
                counter += 1;
                stack.push(v);
                on[vu] = true;
            }
            if *ei < g.adj[vu].len() {
                let (t, _) = g.adj[vu][*ei];
                *ei += 1;
                let tu = t as usize;
                if idx[tu] == u32::MAX {
                    call.push((t, 0));
                } else if on[tu] {
                    low[vu] = low[vu].min(idx[tu]);
                }
            } else {
                if low[vu] == idx[vu] {
                    loop {
                        let x = stack.pop().unwrap();
                        on[x as usize] = false;
                        comp[x as usize] = ncomp;
                        if x == v {
                            break;
                        }
                    }
                    ncomp += 1;
                }
                call.pop();
                if let Some(&mut (pv, _)) = call.last_mut() {
                    let pu = pv as usize;
                    low[pu] = low[pu].min(low[vu]);
                }
            }
        }
    }
    let mut size = vec![0u32; ncomp as usize];
    let mut has_exit = vec![false; ncomp as usize];
    let mut has_cycle = vec![false; ncomp as usize];
    for v in 0..n {
        size[comp[v] as usize] += 1;
    }
    for v in 0..n {
        for &(t, spin) in g.adj[v].iter() {
            if comp[v] == comp[t as usize] {
                has_cycle[comp[v] as usize] = true;
                if !spin && out.violations.len() < 5 {
                    out.violations.push(ModelViolation { why: "a cycle contains a step that is not idle polling (progress can repeat forever)".into(), path: path_to(&g, v as u32) });
                }
            } else {
                has_exit[comp[v] as usize] = true;
            }
        }
    }
    out.nontrivial_sccs = (0..ncomp as usize).filter(|&c| has_cycle[c]).count();
    let mut reported = vec![false; ncomp as usize];
    for v in 0..n {
        let c = comp[v] as usize;
        if !has_exit[c] && !all_exited(&g.states[v]) && !reported[c] && out.violations.len() < 5 {
            reported[c] = true;
            out.violations.push(ModelViolation {
                why: format!("from this state no worker can ever make progress although not all workers have exited (component of {} states, all idle polling)", size[c]),
                path: path_to(&g, v as u32),
            });
        }
    }
    out
}

// ---------------------------------------------------------------------------
// Model paths as implementation schedules

#[derive(Clone, Debug)]
pub struct Schedule {
    pub prefix: Vec<usize>,
    pub retry_at: Vec<usize>,
    /// the workers the prefix schedules, in order
    pub workers: Vec<usize>,
}

/// Convert a model path into a choice prefix for the replay scheduler.
/// `None` if the path schedules a worker the scheduler considers blocked
/// (an idle worker polling although nothing was pushed since its last look).
pub fn to_schedule(tree: &PTree, p: &Params, path: &[(usize, bool)]) -> Option<Schedule> {
    let mut s = init(tree, p);
    let mut emu = Emu::new(p.workers);
    let mut prefix = vec![];
    let mut retry_at = vec![];
    let mut steals = 0usize;
    let mut arriving: Option<usize> = None;
    for &(w, retry) in path {
        let (en, _) = emu.enabled(arriving);
        let c = en.iter().position(|&x| x == w)?;
        prefix.push(c);
        emu.choose(w);
        let (t, info) = step(tree, p, &s, w, retry);
        if matches!(t.pcs[w], Pc::Steal { .. }) {
            if retry {
                retry_at.push(steals);
            }
            steals += 1;
        }
        emu.arrive(w, t.pcs[w].point(), retry, info.stole);
        s = t;
        arriving = Some(w);
    }
    Some(Schedule { prefix, retry_at, workers: path.iter().map(|x| x.0).collect() })
}

/// Depth-first spanning forest of the model restricted to the scheduler's
/// enabledness rule; returns one schedule per leaf, which together pass
/// through every state reached. `max_paths` caps the output.
pub fn covering_schedules(tree: &PTree, p: &Params, max_paths: usize, k: usize, m: usize) -> (Vec<Schedule>, usize, bool) {
    #[derive(Clone)]
    struct Frame {
        s: PState,
        emu: Emu,
        arriving: Option<usize>,
        path: Vec<(usize, bool)>,
    }
    let mut seen: HashMap<PState, ()> = HashMap::new();
    let s0 = init(tree, p);
    seen.insert(s0.clone(), ());
    let mut stack = vec![Frame { s: s0, emu: Emu::new(p.workers), arriving: None, path: vec![] }];
    let mut out = vec![];
    let mut capped = false;
    let mut leaves = 0usize;
    let mut popped = 0usize;
    while let Some(f) = stack.pop() {
        popped += 1;
        if popped % 4096 == 0 {
            crate::core::tick();
        }
        let (en, _) = f.emu.enabled(f.arriving);
        let mut extended = false;
        for &w in en.iter() {
            for retry in [false, true] {
                if retry && f.s.retries >= p.retry_budget {
                    continue;
                }
                let (t, info) = step(tree, p, &f.s, w, retry);
                if retry && !matches!(t.pcs[w], Pc::Steal { .. }) {
                    continue;
                }
                if seen.contains_key(&t) {
                    continue;
                }
                seen.insert(t.clone(), ());
                let mut emu = f.emu.clone();
                emu.choose(w);
                emu.arrive(w, t.pcs[w].point(), retry, info.stole);
                let mut path = f.path.clone();
                path.push((w, retry));
                stack.push(Frame { s: t, emu, arriving: Some(w), path });
                extended = true;
            }
        }
        if !extended && !f.path.is_empty() {
            if leaves >= max_paths {
                capped = true;
                continue;
            }
            leaves += 1;
            if (leaves - 1) % m != k {
                continue;
            }
            if let Some(sch) = to_schedule(tree, p, &f.path) {
                out.push(sch);
            }
        }
    }
    (out, seen.len(), capped)
}
