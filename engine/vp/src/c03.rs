//! C03 — results follow the grep model (order, uniqueness, context windows,
//! separators, numbering, offsets, byte count). E1: every input over a small
//! alphabet up to a length bound x every searcher configuration x every
//! strategy / line path, compared event-for-event with the reference model.

use std::collections::BTreeMap;

use grep_regex::RegexMatcherBuilder;
use serde_json::json;

use crate::{core::*, srch::*};

#[derive(Clone, Copy, Debug, PartialEq, Eq, Hash, PartialOrd, Ord)]
pub enum Strat {
    Slice,
    Reader { cap: usize, frag: usize },
}

#[derive(Clone, Copy, Debug, PartialEq, Eq, Hash, PartialOrd, Ord)]
pub enum Mk {
    Toy(LinePath),
    /// grep-regex matcher for the pattern `m` with the line terminator set
    Regex,
    /// grep-regex matcher built the way `rg -U --crlf` builds it (CRLF mode,
    /// multi-line, no line terminator) for `m[^\n]?`: it can match `\r` but
    /// never `\n`, so a multi-line request still runs line by line
    RegexCr,
}

#[derive(Clone, Copy, Debug)]
pub struct Case {
    pub cfg: Cfg,
    pub strat: Strat,
    pub mk: Mk,
}

pub fn alphabet(term: Term) -> Vec<u8> {
    match term {
        Term::Lf => vec![b'm', b'x', b'\n'],
        Term::Crlf => vec![b'm', b'x', b'\n', b'\r'],
        Term::Nul => vec![b'm', b'x', 0],
    }
}

pub fn inputs(term: Term, maxlen: usize) -> Vec<Vec<u8>> {
    let al = alphabet(term);
    let n = seq_count(al.len(), maxlen);
    let mut idx = vec![];
    (0..n)
        .map(|i| {
            seq_decode(al.len(), i, &mut idx);
            idx.iter().map(|&k| al[k]).collect()
        })
        .collect()
}

pub fn all_cfgs(term: Term, max_ctx: usize) -> Vec<Cfg> {
    let mut out = vec![];
    for invert in [false, true] {
        for stop in [false, true] {
            for ln in [true, false] {
                for ml in [false, true] {
                    for passthru in [false, true] {
                        for a in 0..=max_ctx {
                            for b in 0..=max_ctx {
                                if passthru && !((a, b) == (0, 0) || (a, b) == (1, 2)) {
                                    continue;
                                }
                                out.push(Cfg {
                                    term,
                                    invert,
                                    after: a,
                                    before: b,
                                    passthru,
                                    line_number: ln,
                                    stop_on_nonmatch: stop,
                                    multi_line: ml,
                                });
                            }
                        }
                    }
                }
            }
        }
    }
    out
}

pub enum AnyMatcher {
    Toy(ByteMatcher),
    Regex(grep_regex::RegexMatcher),
}

pub fn make_matcher(mk: Mk, term: Term) -> AnyMatcher {
    match mk {
        Mk::Toy(path) => AnyMatcher::Toy(ByteMatcher { needle: b'm', path, term: term.lt() }),
        Mk::Regex => {
            let mut b = RegexMatcherBuilder::new();
            match term {
                Term::Lf => {
                    b.line_terminator(Some(b'\n'));
                }
                Term::Crlf => {
                    b.line_terminator(Some(b'\n')).crlf(true);
                }
                Term::Nul => {
                    b.line_terminator(Some(0));
                }
            }
            AnyMatcher::Regex(b.build("m").unwrap_or_else(|_| machinery_error("regex m does not build")))
        }
        Mk::RegexCr => {
            let mut b = RegexMatcherBuilder::new();
            b.crlf(true).line_terminator(None).multi_line(true);
            AnyMatcher::Regex(b.build("m[^\\n]?").unwrap_or_else(|_| machinery_error("regex m[^\\n]? does not build")))
        }
    }
}

pub fn run_case(
    searcher: &mut grep_searcher::Searcher,
    m: &AnyMatcher,
    strat: Strat,
    input: &[u8],
    rec: &mut Rec,
) -> Result<(), std::io::Error> {
    match strat {
        Strat::Slice => match m {
            AnyMatcher::Toy(t) => searcher.search_slice(t, input, rec),
            AnyMatcher::Regex(r) => searcher.search_slice(r, input, rec),
        },
        Strat::Reader { frag, .. } => {
            let sizes: [usize; 0] = [];
            let rdr = FragReader::new(input, &sizes, frag);
            match m {
                AnyMatcher::Toy(t) => searcher.search_reader(t, rdr, rec),
                AnyMatcher::Regex(r) => searcher.search_reader(r, rdr, rec),
            }
        }
    }
}

pub fn build_searcher(cfg: &Cfg, strat: Strat) -> grep_searcher::Searcher {
    let mut b = cfg.builder();
    match strat {
        Strat::Slice => {
            b.verif_buffer_capacity(Some(8));
        }
        Strat::Reader { cap, .. } => {
            b.verif_buffer_capacity(Some(cap));
        }
    }
    b.build()
}

#[derive(Default)]
struct Acc {
    runs: u64,
    nontrivial: u64,
    with_break: u64,
    with_before: u64,
    with_after: u64,
    merged_windows: u64,
    early_stop: u64,
    disc: Vec<(usize, Vec<u8>, Vec<Ev>, Vec<Ev>, bool)>,
    path_counts: BTreeMap<String, u64>,
}

pub fn run(args: &Args) -> ! {
    if let Some(r) = &args.replay {
        replay(r);
    }
    let tier = args.tier;
    let mut ev = Evidence::new(args, "exploration");
    let mut verdict = Verdict::new("C03");
    let max_ctx = tier.pick(2, 3);
    let mut cases: Vec<Case> = vec![];
    let mut input_sets: BTreeMap<Term, Vec<Vec<u8>>> = BTreeMap::new();
    for term in [Term::Lf, Term::Crlf, Term::Nul] {
        let maxlen = match (tier, term) {
            (Tier::Quick, Term::Crlf) => 6,
            (Tier::Quick, _) => 7,
            (Tier::Thorough, Term::Crlf) => 8,
            (Tier::Thorough, _) => 10,
        };
        let mut ins = inputs(term, maxlen);
        // plus every match-flag vector of up to k one-byte lines (long-range
        // context windows), with and without the final terminator
        let k = tier.pick(9, 12);
        for n in (maxlen / 2 + 1)..=k {
            for bits in 0..(1u32 << n) {
                let mut v = vec![];
                for i in 0..n {
                    v.push(if bits >> i & 1 == 1 { b'm' } else { b'x' });
                    v.push(term.byte());
                }
                ins.push(v.clone());
                v.pop();
                ins.push(v);
            }
        }
        input_sets.insert(term, ins);
        let strats: Vec<Strat> = match tier {
            Tier::Quick => vec![
                Strat::Slice,
                Strat::Reader { cap: 1, frag: 1 },
                Strat::Reader { cap: 2, frag: 64 },
                Strat::Reader { cap: 5, frag: 3 },
            ],
            Tier::Thorough => vec![
                Strat::Slice,
                Strat::Reader { cap: 1, frag: 1 },
                Strat::Reader { cap: 1, frag: 64 },
                Strat::Reader { cap: 2, frag: 64 },
                Strat::Reader { cap: 3, frag: 2 },
                Strat::Reader { cap: 5, frag: 3 },
                Strat::Reader { cap: 64, frag: 64 },
            ],
        };
        for cfg in all_cfgs(term, max_ctx) {
            for &strat in strats.iter() {
                for mk in [Mk::Toy(LinePath::Fast), Mk::Toy(LinePath::Candidate), Mk::Toy(LinePath::Slow), Mk::Regex] {
                    if cfg.multi_line && mk == Mk::Toy(LinePath::Slow) {
                        // a matcher that may match the terminator under
                        // multi_line is a real multi-line search: C13
                        continue;
                    }
                    cases.push(Case { cfg, strat, mk });
                }
            }
        }
    }
    let ncases = cases.len();
    let mut total = Acc::default();
    par_fold(
        ncases,
        4,
        Acc::default,
        |acc, ci| {
            let case = cases[ci];
            let m = make_matcher(case.mk, case.cfg.term);
            let mut searcher = build_searcher(&case.cfg, case.strat);
            let ins = &input_sets[&case.cfg.term];
            let mut per_case = 0;
            for input in ins.iter() {
                let mut rec = Rec::new();
                let res = run_case(&mut searcher, &m, case.strat, input, &mut rec);
                acc.runs += 1;
                let model = grep_model(input, &case.cfg, &|_, l| l.contains(&b'm'));
                let ok = res.is_ok() && events_agree(&rec.events, &model);
                if model.len() > 2 {
                    acc.nontrivial += 1;
                }
                if model.iter().any(|e| *e == Ev::Break) {
                    acc.with_break += 1;
                }
                if model.iter().any(|e| matches!(e, Ev::Ctx { kind: 0, .. })) {
                    acc.with_before += 1;
                }
                if model.iter().any(|e| matches!(e, Ev::Ctx { kind: 1, .. })) {
                    acc.with_after += 1;
                }
                if matches!(model.last(), Some(Ev::Finish { bytes: u64::MAX, .. })) {
                    acc.early_stop += 1;
                }
                if !ok && per_case < 2 && acc.disc.len() < 300 {
                    per_case += 1;
                    acc.disc.push((ci, input.clone(), rec.events.clone(), model, false));
                }
            }
            *acc.path_counts.entry(format!("{:?}", case.mk)).or_insert(0) += ins.len() as u64;
        },
        |a| {
            total.runs += a.runs;
            total.nontrivial += a.nontrivial;
            total.with_break += a.with_break;
            total.with_before += a.with_before;
            total.with_after += a.with_after;
            total.early_stop += a.early_stop;
            total.merged_windows += a.merged_windows;
            total.disc.extend(a.disc);
            for (k, v) in a.path_counts {
                *total.path_counts.entry(k).or_insert(0) += v;
            }
        },
    );
    for (ci, input, got, want, f10) in total.disc.iter() {
        let case = cases[*ci];
        verdict.discrepancy(
            if *f10 { Some("unused") } else { None },
            &format!("{} | {:?} | {:?} | {}", case.cfg.show(), case.strat, case.mk, esc(input)),
            json!({
                "kind": "events-vs-grep-model",
                "cfg": cfg_json(&case.cfg), "strategy": format!("{:?}", case.strat), "matcher": format!("{:?}", case.mk),
                "input": esc(input), "delivered": show(got), "model": show(want),
            }),
        );
    }
    if total.with_break == 0 || total.with_before == 0 || total.with_after == 0 || total.early_stop == 0 {
        machinery_error("C03: a mandatory coverage counter is zero");
    }
    ev.set("evaluations", total.runs);
    ev.set("distinct_nontrivial", total.nontrivial);
    ev.set("exhaustive", true);
    ev.set("configurations", ncases);
    ev.set("inputs_per_terminator", json!(input_sets.iter().map(|(k, v)| (format!("{:?}", k), v.len())).collect::<BTreeMap<_, _>>()));
    ev.set("runs_with_separator", total.with_break);
    ev.set("runs_with_before_context", total.with_before);
    ev.set("runs_with_after_context", total.with_after);
    ev.set("runs_stopped_by_stop_on_nonmatch", total.early_stop);
    ev.set("runs_by_matcher_line_path", json!(total.path_counts));
    ev.set(
        "rule",
        "every byte string over {m,x,terminator} (plus \\r under CRLF) up to the length bound (LF/NUL: 7 quick, 10 thorough; CRLF: 6 / 8), plus every match-flag vector of up to 9 / 12 one-byte lines with and without the final terminator, x every searcher configuration (A,B in 0..2 squared (0..3 thorough), invert, passthru, stop_on_nonmatch, line numbers on/off, multi_line requested with a matcher that cannot match the terminator, LF/CRLF/NUL) x strategy (slice; incremental reader with roll-buffer capacity 1/2/3/5/64 and read sizes 1/2/3/64) x matcher line path (fast-confirmed, fast-candidate, slow, grep-regex). The complete Sink event stream (begin, matched, context with kind, context_break, finish; bytes, line number, absolute offset, byte count) must equal the executable grep model of DESIGN.md A.1. Non-trivial = the model delivers at least one line; all (configuration, input) pairs are distinct by construction. One Searcher is reused for all inputs of a configuration.",
    );
    let s0 = &cases[ncases / 3];
    ev.set(
        "samples",
        json!([
            {"cfg": s0.cfg.show(), "strategy": format!("{:?}", s0.strat), "matcher": format!("{:?}", s0.mk), "input": "x\\nm\\nx\\nx\\nm",
             "model": show(&grep_model(b"x\nm\nx\nx\nm", &s0.cfg, &|_, l| l.contains(&b'm')))},
        ]),
    );
    ev.assume("inputs longer than the bound and context sizes above 2 behave like the enumerated shapes");
    verdict.finish(ev)
}

pub fn cfg_json(c: &Cfg) -> serde_json::Value {
    json!({
        "term": format!("{:?}", c.term), "invert": c.invert, "after": c.after, "before": c.before,
        "passthru": c.passthru, "line_number": c.line_number, "stop_on_nonmatch": c.stop_on_nonmatch,
        "multi_line": c.multi_line,
    })
}

pub fn cfg_from_json(v: &serde_json::Value) -> Cfg {
    Cfg {
        term: match v["term"].as_str() {
            Some("Crlf") => Term::Crlf,
            Some("Nul") => Term::Nul,
            _ => Term::Lf,
        },
        invert: v["invert"].as_bool().unwrap_or(false),
        after: v["after"].as_u64().unwrap_or(0) as usize,
        before: v["before"].as_u64().unwrap_or(0) as usize,
        passthru: v["passthru"].as_bool().unwrap_or(false),
        line_number: v["line_number"].as_bool().unwrap_or(true),
        stop_on_nonmatch: v["stop_on_nonmatch"].as_bool().unwrap_or(false),
        multi_line: v["multi_line"].as_bool().unwrap_or(false),
    }
}

pub fn parse_strat(s: &str) -> Strat {
    if s == "Slice" {
        return Strat::Slice;
    }
    let nums: Vec<usize> = s.split(|c: char| !c.is_ascii_digit()).filter(|x| !x.is_empty()).map(|x| x.parse().unwrap()).collect();
    Strat::Reader { cap: nums[0], frag: nums[1] }
}

pub fn parse_mk(s: &str) -> Mk {
    match s {
        "Regex" => Mk::Regex,
        "Toy(Fast)" => Mk::Toy(LinePath::Fast),
        "Toy(Candidate)" => Mk::Toy(LinePath::Candidate),
        _ => Mk::Toy(LinePath::Slow),
    }
}

fn replay(path: &str) -> ! {
    let text = std::fs::read_to_string(path).unwrap_or_else(|_| machinery_error("cannot read replay"));
    let v: serde_json::Value = serde_json::from_str(&text).unwrap_or_else(|_| machinery_error("bad replay"));
    let cfg = cfg_from_json(&v["cfg"]);
    let strat = parse_strat(v["strategy"].as_str().unwrap_or("Slice"));
    let mk = parse_mk(v["matcher"].as_str().unwrap_or("Regex"));
    let input = unesc(v["input"].as_str().unwrap_or(""));
    let m = make_matcher(mk, cfg.term);
    let mut searcher = build_searcher(&cfg, strat);
    let mut rec = Rec::new();
    let res = run_case(&mut searcher, &m, strat, &input, &mut rec);
    let model = grep_model(&input, &cfg, &|_, l| l.contains(&b'm'));
    println!("config:    {} {:?} {:?}", cfg.show(), strat, mk);
    println!("input:     {}", esc(&input));
    println!("delivered: {} ({:?})", show(&rec.events), res.as_ref().err());
    println!("model:     {}", show(&model));
    std::process::exit(if res.is_ok() && events_agree(&rec.events, &model) { 0 } else { 1 })
}
