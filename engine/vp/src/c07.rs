//! C07 — the parallel walker terminates and loses nothing under every
//! schedule. E3: every interleaving of the hooked points of the REAL
//! `WalkParallel` up to a preemption bound, with injected `Steal::Retry`
//! answers and a visitor quit injected at every visit index.

use std::{
    collections::{BTreeMap, BTreeSet, HashSet},
    io::{BufRead, Write},
    path::{Path, PathBuf},
    sync::{
        atomic::{AtomicU64, AtomicUsize, Ordering},
        Arc, Mutex,
    },
};

use ignore::{
    verif::{self, Abort, Event, Point, Trace},
    WalkBuilder, WalkState,
};
use serde_json::{json, Value};

use crate::{core::*, proto, sched};

const HORIZON: usize = 4000;

// ---------------------------------------------------------------------------
// Trees

/// A forest below the search root(s): `parent == None` means directly below
/// the (first) root directory.
#[derive(Clone, Debug, PartialEq, Eq, PartialOrd, Ord, Hash)]
pub struct TreeSpec {
    /// canonical text, e.g. "d(f,f),f"
    pub text: String,
    /// number of root directories (1 or 2); with 2 the same forest is created
    /// under each root
    pub roots: usize,
}

#[derive(Clone, Debug)]
enum Tn {
    F,
    D(Vec<Tn>),
}

fn canon(t: &Tn) -> String {
    match t {
        Tn::F => "f".to_string(),
        Tn::D(ch) => {
            let mut c: Vec<String> = ch.iter().map(canon).collect();
            c.sort();
            format!("d({})", c.join(","))
        }
    }
}

/// All forests with exactly `n` nodes (as multisets of trees, canonical text).
fn forests(n: usize) -> BTreeSet<String> {
    fn trees(n: usize) -> Vec<Tn> {
        // all single trees with exactly n nodes
        if n == 0 {
            return vec![];
        }
        let mut out = vec![];
        if n == 1 {
            out.push(Tn::F);
        }
        for f in forest_lists(n - 1) {
            out.push(Tn::D(f));
        }
        out
    }
    fn forest_lists(n: usize) -> Vec<Vec<Tn>> {
        if n == 0 {
            return vec![vec![]];
        }
        let mut out = vec![];
        for first in 1..=n {
            for t in trees(first) {
                for rest in forest_lists(n - first) {
                    let mut v = vec![t.clone()];
                    v.extend(rest);
                    out.push(v);
                }
            }
        }
        out
    }
    let mut set = BTreeSet::new();
    for f in forest_lists(n) {
        let mut c: Vec<String> = f.iter().map(canon).collect();
        c.sort();
        set.insert(c.join(","));
    }
    set
}

fn parse_forest(text: &str) -> Vec<Tn> {
    fn list(b: &[u8], i: &mut usize) -> Vec<Tn> {
        let mut out = vec![];
        while *i < b.len() && b[*i] != b')' {
            match b[*i] {
                b'f' => {
                    *i += 1;
                    out.push(Tn::F);
                }
                b'd' => {
                    *i += 2; // d(
                    let ch = list(b, i);
                    *i += 1; // )
                    out.push(Tn::D(ch));
                }
                b',' => *i += 1,
                _ => machinery_error("bad tree text"),
            }
        }
        out
    }
    let mut i = 0;
    list(text.as_bytes(), &mut i)
}

/// Create the forest under `dir`; returns the relative paths of all entries.
fn materialize(forest: &[Tn], dir: &Path, rel: &str, out: &mut Vec<String>) {
    for (k, t) in forest.iter().enumerate() {
        let name = format!("e{}", k);
        let r = if rel.is_empty() { name.clone() } else { format!("{}/{}", rel, name) };
        let p = dir.join(&name);
        match t {
            Tn::F => {
                std::fs::write(&p, b"x").unwrap_or_else(|_| machinery_error("cannot write scratch file"));
                out.push(r);
            }
            Tn::D(ch) => {
                std::fs::create_dir(&p).unwrap_or_else(|_| machinery_error("cannot create scratch dir"));
                out.push(r.clone());
                materialize(ch, &p, &r, out);
            }
        }
    }
}

pub fn tree_specs(max_nodes: usize, two_roots_upto: usize) -> Vec<TreeSpec> {
    let mut out = vec![];
    for n in 0..=max_nodes {
        for text in forests(n) {
            out.push(TreeSpec { text: text.clone(), roots: 1 });
            if n >= 1 && n <= two_roots_upto {
                out.push(TreeSpec { text: text.clone(), roots: 2 });
            }
            // more roots than (two) workers: the initial messages are dealt
            // out to the workers' deques
            if n <= 1 {
                out.push(TreeSpec { text, roots: 3 });
            }
        }
    }
    out
}

// ---------------------------------------------------------------------------
// One execution

pub struct Fixture {
    _scratch: Scratch,
    roots: Vec<PathBuf>,
    base: PathBuf,
    /// expected visited paths (relative to the scratch base), as a multiset
    pub expected: Vec<String>,
    /// the same tree as the protocol model sees it (children in readdir order)
    pub ptree: proto::PTree,
}

fn build_ptree(base: &Path, roots: &[PathBuf]) -> proto::PTree {
    let mut t = proto::PTree { names: vec![], is_dir: vec![], kids: vec![], roots: vec![] };
    fn add(t: &mut proto::PTree, base: &Path, path: &Path) -> u8 {
        let id = t.names.len();
        if id >= 250 {
            machinery_error("tree too large for the protocol model");
        }
        t.names.push(path.strip_prefix(base).unwrap_or(path).to_string_lossy().to_string());
        let is_dir = path.is_dir();
        t.is_dir.push(is_dir);
        t.kids.push(vec![]);
        if is_dir {
            let rd = std::fs::read_dir(path).unwrap_or_else(|_| machinery_error("cannot list scratch dir"));
            for e in rd {
                let e = e.unwrap_or_else(|_| machinery_error("cannot list scratch dir"));
                let k = add(t, base, &e.path());
                t.kids[id].push(k);
            }
        }
        id as u8
    }
    for r in roots {
        let id = add(&mut t, base, r);
        t.roots.push(id);
    }
    t
}

impl Fixture {
    pub fn new(spec: &TreeSpec) -> Fixture {
        let scratch = Scratch::new("c07");
        let forest = parse_forest(&spec.text);
        let mut roots = vec![];
        let mut expected = vec![];
        for r in 0..spec.roots {
            let rn = format!("r{}", r);
            let root = scratch.path.join(&rn);
            std::fs::create_dir(&root).unwrap_or_else(|_| machinery_error("cannot create root"));
            expected.push(rn.clone());
            let mut ents = vec![];
            materialize(&forest, &root, &rn, &mut ents);
            expected.extend(ents);
            roots.push(root);
        }
        expected.sort();
        let base = scratch.path.clone();
        let ptree = build_ptree(&base, &roots);
        Fixture { _scratch: scratch, roots, base, expected, ptree }
    }
}

#[derive(Clone, Debug)]
pub struct Outcome {
    pub visited: Vec<(Option<usize>, String)>,
    pub errors: usize,
    pub abort: Option<Abort>,
    pub done: bool,
    pub panicked: bool,
    pub trace: Trace,
}

pub fn execute(fx: &Fixture, workers: usize, quit_at: Option<usize>, node: &sched::Node) -> Outcome {
    let mut b = WalkBuilder::new(&fx.roots[0]);
    for r in fx.roots.iter().skip(1) {
        b.add(r);
    }
    b.standard_filters(false).threads(workers);
    let walker = b.build_parallel();
    let visited: Arc<Mutex<Vec<(Option<usize>, String)>>> = Arc::new(Mutex::new(vec![]));
    let errors = Arc::new(AtomicUsize::new(0));
    let counter = Arc::new(AtomicUsize::new(0));
    verif::install(node.config(HORIZON));
    let base = fx.base.clone();
    let result = std::panic::catch_unwind(std::panic::AssertUnwindSafe(|| {
        walker.run(|| {
            let visited = visited.clone();
            let errors = errors.clone();
            let counter = counter.clone();
            let base = base.clone();
            Box::new(move |entry| {
                let idx = counter.fetch_add(1, Ordering::SeqCst);
                match entry {
                    Ok(e) => {
                        let rel = e.path().strip_prefix(&base).unwrap_or(e.path()).to_string_lossy().to_string();
                        verif::note(format!("visit {}", rel));
                        visited.lock().unwrap().push((verif::current_worker(), rel));
                    }
                    Err(_) => {
                        errors.fetch_add(1, Ordering::SeqCst);
                    }
                }
                if Some(idx) == quit_at {
                    verif::note("visitor returns Quit".to_string());
                    WalkState::Quit
                } else {
                    WalkState::Continue
                }
            })
        });
    }));
    let trace = verif::take_trace().unwrap_or_default();
    let v = visited.lock().unwrap().clone();
    Outcome {
        visited: v,
        errors: errors.load(Ordering::SeqCst),
        abort: trace.abort,
        done: trace.done,
        panicked: result.is_err(),
        trace,
    }
}

/// The oracle. Returns a description of the violation, if any.
pub fn judge(fx: &Fixture, quit_at: Option<usize>, o: &Outcome) -> Option<String> {
    match o.abort {
        Some(Abort::Deadlock) => return Some("deadlock: no enabled worker, not all workers exited".into()),
        Some(Abort::Horizon) => return Some(format!("livelock: more than {} scheduling steps", HORIZON)),
        Some(Abort::Diverged) => machinery_error("C07: replay diverged (choice out of range) — harness lost determinism"),
        Some(Abort::Panicked) => return Some("a worker panicked during the walk".into()),
        None => {}
    }
    if o.panicked {
        return Some("the walk panicked".into());
    }
    if !o.done {
        return Some("the walk returned without joining its workers".into());
    }
    if o.errors > 0 {
        return Some(format!("{} unexpected error entries", o.errors));
    }
    let mut got: Vec<String> = o.visited.iter().map(|(_, p)| p.clone()).collect();
    got.sort();
    let quit_happened = quit_at.map_or(false, |q| q < o.visited.len() + o.errors);
    if !quit_happened {
        if got != fx.expected {
            let missing: Vec<&String> = fx.expected.iter().filter(|p| !got.contains(p)).collect();
            let mut dup = vec![];
            for w in got.windows(2) {
                if w[0] == w[1] {
                    dup.push(w[0].clone());
                }
            }
            return Some(format!("visited multiset differs: lost {:?}, duplicated {:?}", missing, dup));
        }
    } else {
        for w in got.windows(2) {
            if w[0] == w[1] {
                return Some(format!("entry {} handed out twice after a quit", w[0]));
            }
        }
        for p in got.iter() {
            if !fx.expected.contains(p) {
                return Some(format!("unknown entry {} visited", p));
            }
        }
    }
    None
}

// ---------------------------------------------------------------------------
// Exploration of one unit

#[derive(Clone, Debug)]
pub struct Unit {
    pub tree: TreeSpec,
    pub workers: usize,
    pub quit_at: Option<usize>,
    pub pbound: usize,
    pub rbound: usize,
    /// explore the root execution's children with index == k (mod m); the
    /// root itself belongs to k == 0
    pub k: usize,
    pub m: usize,
    /// a protocol-model unit (E4): explore the model for this configuration
    /// (rbound = Retry budget) and replay share k of m of its covering
    /// schedules on the implementation
    pub model: bool,
}

impl Unit {
    fn to_line(&self) -> String {
        format!(
            "{} {} {} {} {} {} {} {} {}",
            if self.tree.text.is_empty() { "-" } else { &self.tree.text },
            self.tree.roots,
            self.workers,
            self.quit_at.map_or(-1i64, |q| q as i64),
            self.pbound,
            self.rbound,
            self.k,
            self.m,
            if self.model { "M" } else { "E" }
        )
    }
    fn from_line(l: &str) -> Unit {
        let f: Vec<&str> = l.split_whitespace().collect();
        let q: i64 = f[3].parse().unwrap();
        Unit {
            tree: TreeSpec { text: if f[0] == "-" { String::new() } else { f[0].to_string() }, roots: f[1].parse().unwrap() },
            workers: f[2].parse().unwrap(),
            quit_at: if q < 0 { None } else { Some(q as usize) },
            pbound: f[4].parse().unwrap(),
            rbound: f[5].parse().unwrap(),
            k: f[6].parse().unwrap(),
            m: f[7].parse().unwrap(),
            model: f.get(8) == Some(&"M"),
        }
    }
}

#[derive(Default)]
pub struct UnitResult {
    pub executions: u64,
    pub steps: u64,
    pub states: HashSet<u64>,
    pub outcomes: BTreeSet<String>,
    pub with_steal: u64,
    pub with_idle_reactivated: u64,
    pub with_last_idle_broadcast: u64,
    pub with_quit_domino: u64,
    pub with_retry: u64,
    pub max_preemptions: usize,
    pub violations: Vec<Value>,
    /// implementation traces replayed through the protocol model
    pub conform_ok: u64,
    pub conform_fail: u64,
    pub drift: Vec<String>,
    pub model_states: u64,
    pub model_transitions: u64,
    pub model_spin_transitions: u64,
    pub model_terminal_states: u64,
    pub model_cyclic_components: u64,
    pub model_max_depth: u64,
    pub model_capped: u64,
    pub model_configs: u64,
    pub model_paths_replayed: u64,
    pub model_states_covered_by_replay: u64,
    pub model_replay_capped: u64,
    pub slowest: Vec<(u64, String)>,
}

/// Abstract states along a trace: per worker (last point, pushes, visits),
/// plus whether the quit flag was set; and a few coverage facts.
fn digest(trace: &Trace, res: &mut UnitResult, tag: u64) {
    let n = trace.workers.max(1);
    let mut pc = vec![0u8; n];
    let mut pushes = vec![0u16; n];
    let mut visits = vec![0u16; n];
    let mut quit = false;
    let mut idle_seen = vec![false; n];
    let mut steal_visit = false;
    let mut last_was_steal = vec![false; n];
    let mut reactivated = false;
    let mut broadcast = false;
    let mut domino = false;
    let mut deact_then_push = vec![false; n];
    for e in trace.events.iter() {
        match e {
            Event::Step(s) => {
                res.steps += 1;
                if s.worker != usize::MAX {
                    let w = s.worker;
                    pc[w] = s.point as u8 + 1;
                    match s.point {
                        Point::Push => {
                            pushes[w] += 1;
                            if deact_then_push[w] {
                                broadcast = true;
                            }
                            if idle_seen[w] && quit {
                                domino = true;
                            }
                        }
                        Point::Steal => last_was_steal[w] = true,
                        Point::Pop => last_was_steal[w] = false,
                        Point::Idle => idle_seen[w] = true,
                        Point::Activate => {
                            if idle_seen[w] {
                                reactivated = true;
                            }
                        }
                        Point::QuitNow => quit = true,
                        _ => {}
                    }
                    deact_then_push[w] = s.point == Point::Deactivate;
                }
                let mut h = tag;
                for w in 0..n {
                    h = h.wrapping_mul(0x100000001b3) ^ (pc[w] as u64);
                    h = h.wrapping_mul(0x100000001b3) ^ (pushes[w] as u64);
                    h = h.wrapping_mul(0x100000001b3) ^ (visits[w] as u64);
                }
                h = h.wrapping_mul(0x100000001b3) ^ (quit as u64);
                res.states.insert(h);
            }
            Event::Note { worker, text } => {
                if let (Some(w), true) = (worker, text.starts_with("visit ")) {
                    visits[*w] += 1;
                    if last_was_steal[*w] {
                        steal_visit = true;
                    }
                }
            }
        }
    }
    if steal_visit {
        res.with_steal += 1;
    }
    if reactivated {
        res.with_idle_reactivated += 1;
    }
    if broadcast {
        res.with_last_idle_broadcast += 1;
    }
    if domino {
        res.with_quit_domino += 1;
    }
}

fn outcome_key(o: &Outcome) -> String {
    // which worker visited what, in order
    o.visited.iter().map(|(w, p)| format!("{}:{}", w.map_or(9, |w| w), p)).collect::<Vec<_>>().join("|")
}

pub fn explore_unit(u: &Unit) -> UnitResult {
    let fx = Fixture::new(&u.tree);
    let mut res = UnitResult::default();
    let tag = hash64(u.to_line().split_whitespace().take(4).collect::<Vec<_>>().join(" ").as_bytes());
    let root = sched::Node::root();
    let root_out = execute(&fx, u.workers, u.quit_at, &root);
    let mut stack: Vec<sched::Node> = vec![];
    if u.k == 0 {
        account(&fx, u, &root, &root_out, &mut res, tag);
    }
    if root_out.abort.is_none() {
        for (i, c) in sched::children(&root, &root_out.trace, u.pbound, u.rbound).into_iter().enumerate() {
            if i % u.m == u.k {
                stack.push(c);
            }
        }
    }
    while let Some(node) = stack.pop() {
        tick();
        let out = execute(&fx, u.workers, u.quit_at, &node);
        account(&fx, u, &node, &out, &mut res, tag);
        if out.abort.is_none() {
            stack.extend(sched::children(&node, &out.trace, u.pbound, u.rbound));
        }
        if res.violations.len() >= 5 {
            break;
        }
    }
    res
}

fn account(fx: &Fixture, u: &Unit, node: &sched::Node, out: &Outcome, res: &mut UnitResult, tag: u64) {
    res.executions += 1;
    digest(&out.trace, res, tag);
    if !node.retry_at.is_empty() {
        res.with_retry += 1;
    }
    res.max_preemptions = res.max_preemptions.max(node.preemptions);
    if std::env::var("VERIF_C07_DEBUG_NO_CONF").is_err() {
        conformance(fx, u, out, res);
    }
    if res.outcomes.len() < 20000 {
        res.outcomes.insert(format!("{}#{}", u.to_line().split_whitespace().take(4).collect::<Vec<_>>().join(" "), outcome_key(out)));
    }
    if let Some(why) = judge(fx, u.quit_at, out) {
        // replay-twice rule
        let again = execute(fx, u.workers, u.quit_at, node);
        let again2 = execute(fx, u.workers, u.quit_at, node);
        let same = |a: &Outcome, b: &Outcome| a.abort == b.abort && a.visited == b.visited && a.done == b.done;
        if !same(out, &again) || !same(&again, &again2) {
            machinery_error("C07: a failing schedule did not reproduce identically — nondeterminism outside the scheduler");
        }
        res.violations.push(json!({
            "kind": "schedule",
            "why": why,
            "tree": u.tree.text, "roots": u.tree.roots, "workers": u.workers,
            "quit_at": u.quit_at, "prefix": node.prefix, "retry_at": node.retry_at,
            "preemptions": node.preemptions,
            "abort": sched::abort_name(out.abort),
            "visited": out.visited.iter().map(|(w, p)| format!("w{}:{}", w.map_or(9, |w| w), p)).collect::<Vec<_>>(),
            "expected": fx.expected,
            "trace": sched::render(&out.trace),
        }));
    }
}

/// Trace inclusion: the implementation's trace must be a behaviour of the
/// protocol model (same worker, same next point, same visits, same enabled
/// set at every decision). A failure is model drift, never a verdict.
fn conformance(fx: &Fixture, u: &Unit, out: &Outcome, res: &mut UnitResult) {
    if out.panicked && out.abort.is_none() {
        return;
    }
    let p = proto::Params { workers: u.workers, quit_at: u.quit_at, retry_budget: 255, mutant: 0 };
    match proto::replay_trace(&fx.ptree, &p, &out.trace) {
        Ok(fin) => {
            let mut ok = true;
            if out.abort.is_none() && out.done {
                // final observations agree as well
                let mut got: Vec<String> = out.visited.iter().map(|(_, p)| p.clone()).collect();
                got.sort();
                let mut want: Vec<String> = vec![];
                for (i, c) in fin.visited.iter().enumerate() {
                    for _ in 0..*c {
                        want.push(fx.ptree.names[i].clone());
                    }
                }
                want.sort();
                if got != want || !fin.pcs.iter().all(|p| *p == proto::Pc::Exit) {
                    ok = false;
                    if res.drift.len() < 3 {
                        res.drift.push(format!("final state: implementation visited {:?}, model {:?}, model pcs {:?}", got, want, fin.pcs));
                    }
                }
            }
            if ok {
                res.conform_ok += 1;
            } else {
                res.conform_fail += 1;
            }
        }
        Err(e) => {
            res.conform_fail += 1;
            if res.drift.len() < 3 {
                res.drift.push(format!("tree {:?} roots {} workers {} quit {:?}: {}", u.tree.text, u.tree.roots, u.workers, u.quit_at, e));
            }
        }
    }
}

/// E4: explore the protocol model for this unit's configuration over ALL
/// interleavings, then execute share k of m of its covering schedules on the
/// implementation and replay the traces through the model.
pub fn model_unit(u: &Unit) -> UnitResult {
    let fx = Fixture::new(&u.tree);
    let mut res = UnitResult::default();
    let p = proto::Params { workers: u.workers, quit_at: u.quit_at, retry_budget: u.rbound as u8, mutant: 0 };
    let cap = 3_000_000;
    if u.k == 0 {
        let ex = proto::explore(&fx.ptree, &p, cap);
        res.model_configs = 1;
        res.model_states = ex.states as u64;
        res.model_transitions = ex.transitions as u64;
        res.model_spin_transitions = ex.spin_transitions as u64;
        res.model_terminal_states = ex.terminal_states as u64;
        res.model_cyclic_components = ex.nontrivial_sccs as u64;
        res.model_max_depth = ex.max_depth as u64;
        res.model_capped = ex.capped as u64;
        // a model-level violation counts only if the implementation shows it
        for mv in ex.violations.iter() {
            match proto::to_schedule(&fx.ptree, &p, &mv.path) {
                None => res.drift.push(format!("model violation ({}) on a path the scheduler cannot replay", mv.why)),
                Some(sch) => {
                    let node = sched::Node { prefix: sch.prefix.clone(), retry_at: sch.retry_at.clone(), retry_from: 0, preemptions: 0 };
                    let out = execute(&fx, u.workers, u.quit_at, &node);
                    match judge(&fx, u.quit_at, &out) {
                        Some(why) => res.violations.push(json!({
                            "kind": "schedule", "found_by": "protocol model (all interleavings), confirmed on the implementation",
                            "why": why, "model_why": mv.why,
                            "tree": u.tree.text, "roots": u.tree.roots, "workers": u.workers,
                            "quit_at": u.quit_at, "prefix": sch.prefix, "retry_at": sch.retry_at, "preemptions": -1,
                            "abort": sched::abort_name(out.abort),
                            "visited": out.visited.iter().map(|(w, p)| format!("w{}:{}", w.map_or(9, |w| w), p)).collect::<Vec<_>>(),
                            "expected": fx.expected,
                            "trace": sched::render(&out.trace),
                        })),
                        None => res.drift.push(format!("the model reports '{}' but the implementation does not show it on that schedule", mv.why)),
                    }
                }
            }
        }
    }
    // model -> implementation: covering schedules
    let max_paths = 200_000;
    let (schedules, covered, capped) = proto::covering_schedules(&fx.ptree, &p, max_paths, u.k, u.m);
    if u.k == 0 {
        res.model_states_covered_by_replay = covered as u64;
        res.model_replay_capped = capped as u64;
    }
    let pconf = proto::Params { workers: u.workers, quit_at: u.quit_at, retry_budget: 255, mutant: 0 };
    for sch in schedules.iter() {
        tick();
        let node = sched::Node { prefix: sch.prefix.clone(), retry_at: sch.retry_at.clone(), retry_from: 0, preemptions: 0 };
        let out = execute(&fx, u.workers, u.quit_at, &node);
        res.model_paths_replayed += 1;
        res.executions += 1;
        if out.abort == Some(Abort::Diverged) {
            res.conform_fail += 1;
            if res.drift.len() < 3 {
                res.drift.push(format!("a model path is not a schedule of the implementation (diverged): workers {:?}", sch.workers));
            }
            continue;
        }
        // the implementation must have followed the model's path ...
        let chosen: Vec<usize> = out.trace.steps().filter(|s| !s.enabled.is_empty()).map(|s| s.enabled[s.choice]).take(sch.workers.len()).collect();
        if chosen != sch.workers {
            res.conform_fail += 1;
            if res.drift.len() < 3 {
                res.drift.push(format!("the implementation scheduled {:?} where the model path has {:?}", chosen, sch.workers));
            }
            continue;
        }
        // ... and the whole run must be a behaviour of the model
        match proto::replay_trace(&fx.ptree, &pconf, &out.trace) {
            Ok(_) => res.conform_ok += 1,
            Err(e) => {
                res.conform_fail += 1;
                if res.drift.len() < 3 {
                    res.drift.push(format!("model path replayed on the implementation: {}", e));
                }
            }
        }
        if let Some(why) = judge(&fx, u.quit_at, &out) {
            res.violations.push(json!({
                "kind": "schedule", "found_by": "covering schedule of the protocol model",
                "why": why,
                "tree": u.tree.text, "roots": u.tree.roots, "workers": u.workers,
                "quit_at": u.quit_at, "prefix": sch.prefix, "retry_at": sch.retry_at, "preemptions": -1,
                "abort": sched::abort_name(out.abort),
                "visited": out.visited.iter().map(|(w, p)| format!("w{}:{}", w.map_or(9, |w| w), p)).collect::<Vec<_>>(),
                "expected": fx.expected,
                "trace": sched::render(&out.trace),
            }));
            if res.violations.len() >= 5 {
                break;
            }
        }
    }
    res
}

// ---------------------------------------------------------------------------
// Worker process protocol

pub fn worker_main() -> ! {
    std::panic::set_hook(Box::new(|_| {}));
    // watchdog: an execution that makes no progress means the harness hangs
    std::thread::spawn(|| {
        let mut last = u64::MAX;
        loop {
            std::thread::sleep(std::time::Duration::from_secs(60));
            let now = PROGRESS.load(Ordering::SeqCst);
            if now == last {
                eprintln!("MACHINERY-ERROR: C07 worker made no progress for 60 s");
                std::process::exit(EXIT_MACHINERY);
            }
            last = now;
        }
    });
    let stdin = std::io::stdin();
    let stdout = std::io::stdout();
    for line in stdin.lock().lines() {
        let Ok(line) = line else { break };
        if line.trim().is_empty() {
            continue;
        }
        let u = Unit::from_line(&line);
        let ticker = std::thread::spawn(|| {});
        let _ = ticker.join();
        let started = std::time::Instant::now();
        let res = explore_unit_progress(&u);
        let unit_ms = started.elapsed().as_millis() as u64;
        let states: Vec<String> = res.states.iter().map(|h| format!("{:x}", h)).collect();
        let v = json!({
            "executions": res.executions, "steps": res.steps, "states": states,
            "outcomes": res.outcomes.iter().collect::<Vec<_>>(),
            "with_steal": res.with_steal, "with_idle_reactivated": res.with_idle_reactivated,
            "with_last_idle_broadcast": res.with_last_idle_broadcast, "with_quit_domino": res.with_quit_domino,
            "with_retry": res.with_retry, "max_preemptions": res.max_preemptions,
            "violations": res.violations,
            "unit_ms": unit_ms,
            "conform_ok": res.conform_ok, "conform_fail": res.conform_fail, "drift": res.drift,
            "model_states": res.model_states, "model_transitions": res.model_transitions,
            "model_spin_transitions": res.model_spin_transitions, "model_terminal_states": res.model_terminal_states,
            "model_cyclic_components": res.model_cyclic_components, "model_max_depth": res.model_max_depth,
            "model_capped": res.model_capped, "model_configs": res.model_configs,
            "model_paths_replayed": res.model_paths_replayed,
            "model_states_covered_by_replay": res.model_states_covered_by_replay, "model_replay_capped": res.model_replay_capped,
        });
        let mut o = stdout.lock();
        let _ = writeln!(o, "{}", v);
        let _ = o.flush();
    }
    std::process::exit(0)
}

fn explore_unit_progress(u: &Unit) -> UnitResult {
    tick();
    let r = if u.model { model_unit(u) } else { explore_unit(u) };
    tick();
    r
}

// ---------------------------------------------------------------------------
// Parent

pub struct Plan {
    pub units: Vec<Unit>,
    pub description: String,
    pub model_description: String,
}

fn visit_count(spec: &TreeSpec) -> usize {
    let f = parse_forest(&spec.text);
    fn cnt(f: &[Tn]) -> usize {
        f.iter().map(|t| match t { Tn::F => 1, Tn::D(c) => 1 + cnt(c) }).sum()
    }
    spec.roots * (1 + cnt(&f))
}

pub fn plan(tier: Tier) -> Plan {
    let mut units = vec![];
    let m = 8usize;
    let mut add = |tree: &TreeSpec, workers: usize, quit_at: Option<usize>, pb: usize, rb: usize| {
        for k in 0..m {
            units.push(Unit { tree: tree.clone(), workers, quit_at, pbound: pb, rbound: rb, k, m, model: false });
        }
    };
    // (thorough keeps the quick tier's trees — every forest with up to three
    // entries — plus two roots for all of them, and spends its budget on
    // deeper preemption / Retry bounds and a fourth worker: with four-entry
    // trees the bound-3 exploration did not finish within an hour)
    let (max_nodes, two_roots) = tier.pick((3, 2), (3, 3));
    let specs = tree_specs(max_nodes, two_roots);
    // (workers, preemption bound, retry bound) for no-quit runs and for quit runs
    let cfg: Vec<(usize, usize, usize, usize)> = match tier {
        // workers, pbound(no quit), rbound, pbound(quit)
        Tier::Quick => vec![(2, 2, 1, 2), (3, 1, 0, 1)],
        Tier::Thorough => vec![(2, 3, 1, 2), (3, 2, 0, 1), (4, 1, 0, 1)],
    };
    for spec in specs.iter() {
        for &(w, pb, rb, pbq) in cfg.iter() {
            add(spec, w, None, pb, rb);
            for q in 0..visit_count(spec) {
                add(spec, w, Some(q), pbq, 0);
            }
        }
    }
    // E4: the protocol model over all interleavings, per (tree, workers, quit index)
    let model_cfg: Vec<(usize, usize, usize, usize, usize)> = match tier {
        // workers, Retry budget, largest tree (entries below a root), largest
        // tree that is also taken with two roots, and the share 1/d of the
        // model's covering schedules replayed on the implementation (the model
        // exploration itself is always complete)
        Tier::Quick => vec![(2, 1, 3, 2, 1), (3, 1, 2, 2, 10)],
        Tier::Thorough => vec![(2, 2, 3, 3, 1), (3, 1, 3, 2, 4), (4, 1, 1, 0, 4)],
    };
    let mm = 4usize;
    for spec in specs.iter() {
        if std::env::var("VERIF_C07_DEBUG_NO_MODEL").is_ok() {
            break;
        }
        let entries = visit_count(spec) / spec.roots - 1;
        for &(w, rb, maxn, max2, d) in model_cfg.iter() {
            if entries > maxn || (spec.roots >= 2 && entries > max2) || (spec.roots == 3 && w > 3) {
                continue;
            }
            let mut quits: Vec<Option<usize>> = vec![None];
            quits.extend((0..visit_count(spec)).map(Some));
            for q in quits {
                for k in 0..mm {
                    units.push(Unit { tree: spec.clone(), workers: w, quit_at: q, pbound: 0, rbound: rb, k, m: mm * d, model: true });
                }
            }
        }
    }
    let description = format!(
        "trees: all forests of files/directories with <= {} entries below the root (canonical up to sibling order; {} of them also with two roots; the trees with at most one entry also with three roots) = {} trees; per tree: {} (workers, preemption bound, Steal::Retry bound) without quit, and a visitor Quit injected at every visit index with (workers, preemption bound) {}",
        max_nodes,
        specs.iter().filter(|s| s.roots == 2).count(),
        specs.len(),
        cfg.iter().map(|c| format!("({},{},{})", c.0, c.1, c.2)).collect::<Vec<_>>().join(" "),
        cfg.iter().map(|c| format!("({},{})", c.0, c.3)).collect::<Vec<_>>().join(" "),
    );
    let model_description = format!(
        "protocol model (E4): for every tree with at most N entries (also with two roots up to N2 entries), (workers, Steal::Retry budget, N, N2, d) in {}, without a quit and with a visitor Quit at every visit index; 1/d of the model's covering schedules are executed on the implementation",
        model_cfg.iter().map(|c| format!("({},{},{},{},{})", c.0, c.1, c.2, c.3, c.4)).collect::<Vec<_>>().join(" ")
    );
    Plan { units, description, model_description }
}

pub fn run(args: &Args) -> ! {
    if args.flag("--worker") {
        worker_main();
    }
    if let Some(r) = &args.replay {
        replay(r);
    }
    let mut ev = Evidence::new(args, "model_checking");
    let mut verdict = Verdict::new("C07");
    let plan = plan(args.tier);
    let nunits = plan.units.len();
    // longest units first (more workers, larger trees), so that the tail of
    // the run is made of short units
    let mut ordered: Vec<(usize, Unit)> = plan.units.clone().into_iter().enumerate().collect();
    ordered.sort_by_key(|(i, u)| (u.workers, visit_count(&u.tree), u.quit_at.is_none(), usize::MAX - *i));
    let queue = Arc::new(Mutex::new(ordered));
    let exe = std::env::current_exe().unwrap_or_else(|_| machinery_error("no current_exe"));
    let nproc = ncpu();
    let total = Arc::new(Mutex::new(UnitResult::default()));
    let by_cfg: Arc<Mutex<BTreeMap<String, u64>>> = Arc::new(Mutex::new(BTreeMap::new()));
    let failed = Arc::new(AtomicUsize::new(0));
    std::thread::scope(|s| {
        for _ in 0..nproc {
            let queue = queue.clone();
            let total = total.clone();
            let by_cfg = by_cfg.clone();
            let failed = failed.clone();
            let exe = exe.clone();
            s.spawn(move || {
                let mut child = std::process::Command::new(&exe)
                    .args(["c07", "--worker"])
                    .stdin(std::process::Stdio::piped())
                    .stdout(std::process::Stdio::piped())
                    .spawn()
                    .unwrap_or_else(|_| machinery_error("cannot spawn worker"));
                let mut cin = child.stdin.take().unwrap();
                let mut cout = std::io::BufReader::new(child.stdout.take().unwrap());
                loop {
                    let next = queue.lock().unwrap().pop();
                    let Some((_, u)) = next else { break };
                    if writeln!(cin, "{}", u.to_line()).is_err() {
                        failed.fetch_add(1, Ordering::SeqCst);
                        break;
                    }
                    let _ = cin.flush();
                    let mut line = String::new();
                    if cout.read_line(&mut line).unwrap_or(0) == 0 {
                        failed.fetch_add(1, Ordering::SeqCst);
                        break;
                    }
                    let Ok(v) = serde_json::from_str::<Value>(&line) else {
                        failed.fetch_add(1, Ordering::SeqCst);
                        break;
                    };
                    let mut t = total.lock().unwrap();
                    t.executions += v["executions"].as_u64().unwrap_or(0);
                    t.steps += v["steps"].as_u64().unwrap_or(0);
                    t.with_steal += v["with_steal"].as_u64().unwrap_or(0);
                    t.with_idle_reactivated += v["with_idle_reactivated"].as_u64().unwrap_or(0);
                    t.with_last_idle_broadcast += v["with_last_idle_broadcast"].as_u64().unwrap_or(0);
                    t.with_quit_domino += v["with_quit_domino"].as_u64().unwrap_or(0);
                    t.with_retry += v["with_retry"].as_u64().unwrap_or(0);
                    t.max_preemptions = t.max_preemptions.max(v["max_preemptions"].as_u64().unwrap_or(0) as usize);
                    for h in v["states"].as_array().into_iter().flatten() {
                        if let Some(h) = h.as_str().and_then(|h| u64::from_str_radix(h, 16).ok()) {
                            t.states.insert(h);
                        }
                    }
                    for o in v["outcomes"].as_array().into_iter().flatten() {
                        if let Some(o) = o.as_str() {
                            t.outcomes.insert(o.to_string());
                        }
                    }
                    for viol in v["violations"].as_array().into_iter().flatten() {
                        t.violations.push(viol.clone());
                    }
                    let g = |k: &str| v[k].as_u64().unwrap_or(0);
                    t.slowest.push((g("unit_ms"), u.to_line()));
                    t.slowest.sort();
                    t.slowest.reverse();
                    t.slowest.truncate(8);
                    t.conform_ok += g("conform_ok");
                    t.conform_fail += g("conform_fail");
                    for d in v["drift"].as_array().into_iter().flatten() {
                        if let (Some(d), true) = (d.as_str(), t.drift.len() < 5) {
                            t.drift.push(d.to_string());
                        }
                    }
                    t.model_states += g("model_states");
                    t.model_transitions += g("model_transitions");
                    t.model_spin_transitions += g("model_spin_transitions");
                    t.model_terminal_states += g("model_terminal_states");
                    t.model_cyclic_components += g("model_cyclic_components");
                    t.model_max_depth = t.model_max_depth.max(g("model_max_depth"));
                    t.model_capped += g("model_capped");
                    t.model_configs += g("model_configs");
                    t.model_paths_replayed += g("model_paths_replayed");
                    t.model_states_covered_by_replay += g("model_states_covered_by_replay");
                    t.model_replay_capped += g("model_replay_capped");
                    *by_cfg
                        .lock()
                        .unwrap()
                        .entry(format!("{}workers={} quit={}", if u.model { "model-path replays " } else { "" }, u.workers, u.quit_at.is_some()))
                        .or_insert(0) += v["executions"].as_u64().unwrap_or(0);
                }
                drop(cin);
                let _ = child.wait();
            });
        }
    });
    if failed.load(Ordering::SeqCst) > 0 {
        machinery_error("C07: a worker process failed");
    }
    let t = Arc::try_unwrap(total).ok().unwrap().into_inner().unwrap();
    for v in t.violations.iter() {
        let key = format!(
            "{}:{}r:{}w:q{:?}:{}",
            v["tree"].as_str().unwrap_or(""),
            v["roots"],
            v["workers"],
            v["quit_at"],
            v["why"].as_str().unwrap_or("")
        );
        verdict.discrepancy(None, &key, v.clone());
    }
    // non-vacuity (mandatory coverage counters)
    if t.executions == 0 || t.with_steal == 0 || t.with_idle_reactivated == 0 || t.with_last_idle_broadcast == 0 {
        if verdict.violations.is_empty() {
            machinery_error("C07: a mandatory coverage counter is zero (steal / idle re-activation / last-idle broadcast)");
        }
    }
    // self-test of the model exploration's oracles: three deliberately broken
    // protocol variants must each be rejected, the real protocol accepted
    let selftest = {
        let tree = proto::PTree {
            names: vec!["r".into(), "r/a".into(), "r/b".into()],
            is_dir: vec![true, false, false],
            kids: vec![vec![1, 2], vec![], vec![]],
            roots: vec![0],
        };
        let mut found = vec![];
        for mutant in 0..=3u8 {
            let p = proto::Params { workers: 3, quit_at: None, retry_budget: 0, mutant };
            let ex = proto::explore(&tree, &p, 2_000_000);
            found.push((mutant, ex.violations.first().map(|v| v.why.clone())));
        }
        if found[0].1.is_some() || found[1..].iter().any(|f| f.1.is_none()) {
            machinery_error(&format!("C07: protocol-model self-test failed: {:?}", found));
        }
        found
    };
    ev.set("protocol_model_selftest", json!(selftest.iter().map(|(m, w)| json!({"broken_variant": m, "rejected_because": w})).collect::<Vec<_>>()));
    // the protocol model is only claimed while it is bound to the code
    let bound = t.conform_fail == 0 && t.drift.is_empty();
    if !bound {
        println!(
            "MODEL-DRIFT: property=C07 the protocol model (E4) does not describe this walker ({} of {} traces do not conform; e.g. {}); its all-interleavings result is NOT claimed for this run, the verdict rests on the schedule exploration of the real code alone",
            t.conform_fail,
            t.conform_fail + t.conform_ok,
            t.drift.first().map(|s| s.as_str()).unwrap_or("-")
        );
    }
    ev.set("slowest_units_ms", json!(t.slowest));
    ev.set("protocol_model_bound_to_code", bound);
    ev.set("protocol_model_drift_examples", json!(t.drift));
    ev.set("impl_traces_replayed_through_model_conforming", t.conform_ok);
    ev.set("impl_traces_replayed_through_model_not_conforming", t.conform_fail);
    ev.set("protocol_model_configurations", t.model_configs);
    ev.set("protocol_model_states", t.model_states);
    ev.set("protocol_model_transitions", t.model_transitions);
    ev.set("protocol_model_idle_polling_transitions", t.model_spin_transitions);
    ev.set("protocol_model_terminal_states", t.model_terminal_states);
    ev.set("protocol_model_cyclic_components_all_idle_polling_with_exit", t.model_cyclic_components);
    ev.set("protocol_model_max_depth", t.model_max_depth);
    ev.set("protocol_model_configurations_capped", t.model_capped);
    ev.set("protocol_model_paths_replayed_on_impl", t.model_paths_replayed);
    ev.set("protocol_model_states_on_replayed_paths", t.model_states_covered_by_replay);
    ev.set("protocol_model_replay_sets_capped", t.model_replay_capped);
    ev.set("protocol_model", format!("{}. Every interleaving of the model's steps (a step = the code between two hooked points; deques as vectors; crossbeam's steal_batch_and_pop as run without interference) is explored breadth-first with NO preemption bound and every placement of Retry answers within the budget; checked in every state / on the graph: no entry visited twice; when all workers have exited and no visitor asked to quit, every entry was visited exactly once; every cycle consists of idle-polling steps only and every strongly connected component without an outgoing edge is an all-exited state (termination under weak fairness). Binding: every implementation execution of this run (schedule exploration and model-path replays) is replayed through the model's step function — same worker, same next hooked point, same visits, same enabled set at every decision; and one schedule per leaf of a depth-first spanning forest of the model (restricted to the scheduler's enabledness rule) is executed on the implementation. A model-level violation counts only if the implementation shows it on the converted schedule.", plan.model_description));
    ev.set("states", t.states.len() as u64 + if bound { t.model_states } else { 0 });
    ev.set("transitions", t.steps + if bound { t.model_transitions } else { 0 });
    ev.set("traces_validated_against_impl", t.executions);
    ev.set("schedules", t.executions);
    ev.set("evaluations", t.executions);
    ev.set("distinct_nontrivial", t.outcomes.len());
    ev.set("distinct_outcomes", t.outcomes.len());
    ev.set("units", nunits);
    ev.set("executions_by_config", json!(*by_cfg.lock().unwrap()));
    ev.set("executions_with_successful_steal", t.with_steal);
    ev.set("executions_with_idle_worker_reactivated", t.with_idle_reactivated);
    ev.set("executions_with_last_idle_broadcast", t.with_last_idle_broadcast);
    ev.set("executions_with_quit_reaching_idle_worker", t.with_quit_domino);
    ev.set("executions_with_injected_retry", t.with_retry);
    ev.set("max_preemptions_used", t.max_preemptions);
    ev.set("exhaustive", true);
    ev.set(
        "rule",
        format!(
            "Every execution is the REAL ignore::WalkParallel (feature verif-hooks) run under the cooperative replay scheduler; explored: every interleaving of the hooked points (push, pop-then-steal receive, each steal attempt, active-counter decrement/increment, quit flag read/write, idle, exit) within the preemption bound, plus injected Steal::Retry answers within the retry bound, over {}. Oracle per execution: terminated (no deadlock = no enabled worker while some worker has not exited; no livelock = horizon {} steps); without quit the multiset of visited paths equals the tree listing; after a visitor Quit no path is visited twice. states = distinct abstract states (per worker: last hooked point, pushes, visits; quit flag) seen along all executions; transitions = scheduling decisions executed; traces_validated_against_impl = executions (each schedule IS an implementation run); distinct_nontrivial = distinct (configuration, visit-order-with-worker-assignment) outcomes.",
            plan.description, HORIZON
        ),
    );
    let sample_unit = &plan.units[plan.units.len() / 2];
    ev.set(
        "samples",
        json!([
            {"unit": sample_unit.to_line(), "meaning": "tree roots workers quit_at pbound rbound k m"},
            {"outcome": t.outcomes.iter().next()},
            {"outcome": t.outcomes.iter().last()},
        ]),
    );
    ev.assume("crossbeam-deque operations are linearizable (each is one atomic step under the scheduler; Steal::Retry is injected)");
    ev.assume("SC interleavings are the full behaviour of active_workers / quit_now (all accesses are RMW or SeqCst)");
    ev.assume("thread counts above the explored ones and trees above the size bound behave like the explored shapes");
    verdict.finish(ev)
}

fn replay(path: &str) -> ! {
    let text = std::fs::read_to_string(path).unwrap_or_else(|_| machinery_error("cannot read replay"));
    let v: Value = serde_json::from_str(&text).unwrap_or_else(|_| machinery_error("bad replay"));
    std::panic::set_hook(Box::new(|_| {}));
    let spec = TreeSpec { text: v["tree"].as_str().unwrap_or("").to_string(), roots: v["roots"].as_u64().unwrap_or(1) as usize };
    let fx = Fixture::new(&spec);
    let node = sched::Node {
        prefix: v["prefix"].as_array().map(|a| a.iter().map(|x| x.as_u64().unwrap() as usize).collect()).unwrap_or_default(),
        retry_at: v["retry_at"].as_array().map(|a| a.iter().map(|x| x.as_u64().unwrap() as usize).collect()).unwrap_or_default(),
        retry_from: 0,
        preemptions: 0,
    };
    let workers = v["workers"].as_u64().unwrap_or(2) as usize;
    let quit_at = v["quit_at"].as_u64().map(|q| q as usize);
    let out = execute(&fx, workers, quit_at, &node);
    for l in sched::render(&out.trace) {
        println!("{}", l);
    }
    println!("visited: {:?}", out.visited);
    println!("abort: {}", sched::abort_name(out.abort));
    match judge(&fx, quit_at, &out) {
        Some(why) => {
            println!("VIOLATION reproduced: {}", why);
            std::process::exit(1)
        }
        None => {
            println!("no violation on this tree");
            std::process::exit(0)
        }
    }
}
