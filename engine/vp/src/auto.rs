//! E2 — explicit-state exploration of products of DFAs built from HIRs
//! (regex-automata's determinizer). Each check is a BFS over product states
//! using one representative byte per joint byte class; a reachable bad state
//! yields a shortest witness haystack. See DESIGN.md section 3 (E2) and A.6.

use std::collections::{HashMap, VecDeque};

use regex_automata::{
    dfa::{dense, Automaton, StartKind},
    nfa::thompson,
    util::{primitives::StateID, start},
    Anchored, MatchKind,
};
use regex_syntax::hir::Hir;

pub struct D {
    pub dfa: dense::DFA<Vec<u32>>,
}

#[derive(Clone, Debug, Default)]
pub struct Stats {
    pub states: u64,
    pub transitions: u64,
    pub quit_paths: u64,
    pub capped: bool,
}

impl Stats {
    pub fn add(&mut self, o: &Stats) {
        self.states += o.states;
        self.transitions += o.transitions;
        self.quit_paths += o.quit_paths;
        self.capped |= o.capped;
    }
}

pub fn build(hir: &Hir) -> Result<D, String> {
    let nfa = thompson::Compiler::new()
        .configure(thompson::Config::new().utf8(false).shrink(false).nfa_size_limit(Some(4 << 20)))
        .build_from_hir(hir)
        .map_err(|e| format!("nfa: {}", e))?;
    let dfa = dense::Builder::new()
        .configure(
            dense::Config::new()
                .start_kind(StartKind::Both)
                .match_kind(MatchKind::LeftmostFirst)
                .unicode_word_boundary(true)
                .minimize(false)
                .accelerate(false)
                .dfa_size_limit(Some(64 << 20))
                .determinize_size_limit(Some(64 << 20)),
        )
        .build_from_nfa(&nfa)
        .map_err(|e| format!("dfa: {}", e))?;
    Ok(D { dfa })
}

impl D {
    pub fn start(&self, anchored: bool, look_behind: Option<u8>) -> Option<StateID> {
        let cfg = start::Config::new()
            .anchored(if anchored { Anchored::Yes } else { Anchored::No })
            .look_behind(look_behind);
        self.dfa.start_state(&cfg).ok()
    }
    #[inline]
    pub fn step(&self, s: StateID, b: u8) -> StateID {
        self.dfa.next_state(s, b)
    }
    #[inline]
    pub fn eoi(&self, s: StateID) -> StateID {
        self.dfa.next_eoi_state(s)
    }
    #[inline]
    pub fn is_match(&self, s: StateID) -> bool {
        self.dfa.is_match_state(s)
    }
    #[inline]
    pub fn is_quit(&self, s: StateID) -> bool {
        self.dfa.is_quit_state(s)
    }
    #[inline]
    pub fn is_dead(&self, s: StateID) -> bool {
        self.dfa.is_dead_state(s)
    }
    pub fn class(&self, b: u8) -> u8 {
        self.dfa.byte_classes().get(b)
    }
}

/// One representative byte per joint byte class of the given DFAs, excluding
/// the bytes in `exclude`; bytes in `singletons` are always their own class.
pub fn reps(ds: &[&D], exclude: &[u8], singletons: &[u8]) -> Vec<u8> {
    let mut seen: HashMap<Vec<u16>, u8> = HashMap::new();
    let mut out = vec![];
    for b in 0..=255u8 {
        if exclude.contains(&b) {
            continue;
        }
        let mut key: Vec<u16> = ds.iter().map(|d| d.class(b) as u16).collect();
        if singletons.contains(&b) {
            key.push(1000 + b as u16);
        }
        if !seen.contains_key(&key) {
            seen.insert(key, b);
            out.push(b);
        }
    }
    out
}

/// Look-behind contexts for the start of a line: start of haystack, or each
/// of the given preceding bytes.
fn path_to(parents: &[(usize, u8)], mut i: usize) -> Vec<u8> {
    let mut w = vec![];
    while parents[i].0 != usize::MAX {
        w.push(parents[i].1);
        i = parents[i].0;
    }
    w.reverse();
    w
}

#[derive(Clone, Debug)]
pub struct Witness {
    pub line: Vec<u8>,
    pub what: String,
}

/// Result of a product exploration.
pub struct Explored {
    pub stats: Stats,
    pub witness: Option<Witness>,
    /// one shortest path (haystack) to each product state, up to a cap — for
    /// replaying the model on the real matcher
    pub sample_paths: Vec<Vec<u8>>,
}

/// One way a line can end, per DFA: the bytes fed after the line and whether
/// the end-of-input transition is taken afterwards.
pub type Ending = Vec<(Vec<u8>, bool)>;

/// Generic product BFS. `N` DFAs run in lock step over `alphabet`; each
/// carries a "seen a match" flag. At every product state every ending is
/// applied (per DFA: trailing bytes, then optionally end of input) and
/// `bad(ending index, flags)` decides whether the state is bad.
/// `ending_ok(last byte of the line, ending index)` filters endings.
pub fn product_bfs(
    ds: &[&D],
    starts: &[StateID],
    alphabet: &[u8],
    endings: &[Ending],
    ending_ok: &dyn Fn(Option<u8>, usize) -> bool,
    bad: &dyn Fn(usize, &[bool]) -> Option<String>,
    path_cap: usize,
) -> Explored {
    let n = ds.len();
    type Key = Vec<(u32, bool)>;
    let mut index: HashMap<Key, usize> = HashMap::new();
    let mut nodes: Vec<Key> = vec![];
    let mut parents: Vec<(usize, u8)> = vec![];
    let mut queue = VecDeque::new();
    let mut stats = Stats::default();
    let k0: Key = (0..n).map(|i| (starts[i].as_u32(), false)).collect();
    index.insert(k0.clone(), 0);
    nodes.push(k0);
    parents.push((usize::MAX, 0));
    queue.push_back(0usize);
    let mut witness = None;
    let mut sample_paths = vec![];
    while let Some(cur) = queue.pop_front() {
        let key = nodes[cur].clone();
        let last = if parents[cur].0 == usize::MAX { None } else { Some(parents[cur].1) };
        for (ei, ending) in endings.iter().enumerate() {
            if !ending_ok(last, ei) {
                continue;
            }
            let mut flags = vec![false; n];
            let mut quit = false;
            for i in 0..n {
                let mut s = StateID::new(key[i].0 as usize).unwrap();
                let mut seen = key[i].1;
                for &b in ending[i].0.iter() {
                    s = ds[i].step(s, b);
                    if ds[i].is_quit(s) {
                        quit = true;
                        break;
                    }
                    if ds[i].is_match(s) {
                        seen = true;
                    }
                }
                if quit {
                    break;
                }
                if ending[i].1 {
                    let e = ds[i].eoi(s);
                    if ds[i].is_match(e) {
                        seen = true;
                    }
                }
                flags[i] = seen;
            }
            stats.transitions += 1;
            if quit {
                stats.quit_paths += 1;
                continue;
            }
            if witness.is_none() {
                if let Some(what) = bad(ei, &flags) {
                    witness = Some(Witness { line: path_to(&parents, cur), what });
                }
            }
        }
        if sample_paths.len() < path_cap {
            sample_paths.push(path_to(&parents, cur));
        }
        for &b in alphabet.iter() {
            let mut nk: Key = Vec::with_capacity(n);
            let mut quit = false;
            for i in 0..n {
                let s = StateID::new(key[i].0 as usize).unwrap();
                let t = ds[i].step(s, b);
                if ds[i].is_quit(t) {
                    quit = true;
                    break;
                }
                nk.push((t.as_u32(), key[i].1 || ds[i].is_match(t)));
            }
            stats.transitions += 1;
            if quit {
                stats.quit_paths += 1;
                continue;
            }
            if !index.contains_key(&nk) {
                let id = nodes.len();
                index.insert(nk.clone(), id);
                nodes.push(nk);
                parents.push((cur, b));
                queue.push_back(id);
            }
        }
        if nodes.len() > 400_000 {
            stats.capped = true;
            break;
        }
    }
    stats.states = nodes.len() as u64;
    Explored { stats, witness, sample_paths }
}

/// Anchored exploration: is there a match (from an anchored start in any of
/// the given look-behind contexts) that contains one of `flagged` bytes?
/// `alphabet` must contain the flagged bytes' representatives.
pub fn match_containing(d: &D, contexts: &[Option<u8>], alphabet: &[u8], flagged: &[u8]) -> (Stats, Option<Witness>) {
    // state: (dfa state, flagged byte among all but the last byte, last byte flagged)
    type Key = (u32, bool, bool);
    let mut stats = Stats::default();
    let mut index: HashMap<Key, usize> = HashMap::new();
    let mut nodes: Vec<Key> = vec![];
    let mut parents: Vec<(usize, u8)> = vec![];
    let mut ctx_of: Vec<Option<u8>> = vec![];
    let mut queue = VecDeque::new();
    for &c in contexts {
        if let Some(s) = d.start(true, c) {
            let k = (s.as_u32(), false, false);
            if !index.contains_key(&k) {
                index.insert(k, nodes.len());
                nodes.push(k);
                parents.push((usize::MAX, 0));
                ctx_of.push(c);
                queue.push_back(nodes.len() - 1);
            }
        }
    }
    let mut witness = None;
    while let Some(cur) = queue.pop_front() {
        let (s, before, last) = nodes[cur];
        let s = StateID::new(s as usize).unwrap();
        // EOI: a match of everything consumed
        let e = d.eoi(s);
        stats.transitions += 1;
        if d.is_match(e) && (before || last) && witness.is_none() {
            witness = Some(Witness { line: path_to(&parents, cur), what: "a match contains the byte".into() });
        }
        for &b in alphabet {
            let t = d.step(s, b);
            stats.transitions += 1;
            if d.is_quit(t) {
                stats.quit_paths += 1;
                continue;
            }
            if d.is_dead(t) {
                continue;
            }
            // a match state after reading b: the match covers all bytes before b
            if d.is_match(t) && (before || last) && witness.is_none() {
                witness = Some(Witness { line: path_to(&parents, cur), what: "a match contains the byte".into() });
            }
            let k = (t.as_u32(), before || last, flagged.contains(&b));
            if !index.contains_key(&k) {
                index.insert(k, nodes.len());
                nodes.push(k);
                parents.push((cur, b));
                ctx_of.push(None);
                queue.push_back(nodes.len() - 1);
            }
        }
        if nodes.len() > 400_000 {
            stats.capped = true;
            break;
        }
    }
    stats.states = nodes.len() as u64;
    (stats, witness)
}

/// Which bytes can occur inside a (leftmost-first) match of `d` started
/// anchored in any of the given look-behind contexts. Graph analysis of the
/// anchored DFA: forward reachability from the start states, backward
/// reachability to a match flag (flags are delayed by one symbol, so a byte
/// is inside a match iff after consuming it a flag is still reachable by at
/// least one more symbol). Returns, per byte in `ask`, a witness haystack
/// whose leading match contains that byte (if any).
pub fn bytes_in_matches(d: &D, contexts: &[Option<u8>], alphabet: &[u8], ask: &[u8]) -> (Stats, Vec<(u8, Vec<u8>)>) {
    let mut stats = Stats::default();
    // forward BFS
    let mut index: HashMap<u32, usize> = HashMap::new();
    let mut nodes: Vec<StateID> = vec![];
    let mut parents: Vec<(usize, u8)> = vec![];
    let mut queue = VecDeque::new();
    for &c in contexts {
        if let Some(s) = d.start(true, c) {
            if !index.contains_key(&s.as_u32()) {
                index.insert(s.as_u32(), nodes.len());
                nodes.push(s);
                parents.push((usize::MAX, 0));
                queue.push_back(nodes.len() - 1);
            }
        }
    }
    let mut edges: Vec<Vec<(u8, usize)>> = vec![];
    while let Some(cur) = queue.pop_front() {
        while edges.len() <= cur {
            edges.push(vec![]);
        }
        let s = nodes[cur];
        for &b in alphabet {
            let t = d.step(s, b);
            stats.transitions += 1;
            if d.is_quit(t) {
                stats.quit_paths += 1;
                continue;
            }
            if d.is_dead(t) {
                continue;
            }
            let id = match index.get(&t.as_u32()) {
                Some(&i) => i,
                None => {
                    let i = nodes.len();
                    index.insert(t.as_u32(), i);
                    nodes.push(t);
                    parents.push((cur, b));
                    queue.push_back(i);
                    i
                }
            };
            edges[cur].push((b, id));
        }
        if nodes.len() > 400_000 {
            stats.capped = true;
            break;
        }
    }
    while edges.len() < nodes.len() {
        edges.push(vec![]);
    }
    stats.states = nodes.len() as u64;
    // flag_next[i]: some single further symbol from node i raises a match flag
    // good[i]: a flag is reachable from node i by >= 1 symbols; next[i] = a
    // byte leading towards it (None = the flag is raised by EOI or directly)
    let n = nodes.len();
    let mut good = vec![false; n];
    let mut via: Vec<Option<(u8, usize)>> = vec![None; n];
    for i in 0..n {
        let s = nodes[i];
        if d.is_match(d.eoi(s)) {
            good[i] = true;
            continue;
        }
        for &(b, j) in edges[i].iter() {
            if d.is_match(nodes[j]) {
                good[i] = true;
                via[i] = Some((b, usize::MAX));
                let _ = j;
                break;
            }
        }
    }
    // backward closure
    let mut changed = true;
    while changed {
        changed = false;
        for i in 0..n {
            if good[i] {
                continue;
            }
            for &(b, j) in edges[i].iter() {
                if good[j] {
                    good[i] = true;
                    via[i] = Some((b, j));
                    changed = true;
                    break;
                }
            }
        }
    }
    let mut out = vec![];
    for &a in ask {
        'search: for i in 0..n {
            for &(b, j) in edges[i].iter() {
                if b == a && good[j] {
                    // witness: path to i, then a, then the way to the flag
                    let mut w = path_to(&parents, i);
                    w.push(a);
                    let mut k = j;
                    let mut guard = 0;
                    while let Some((b2, nx)) = via[k] {
                        w.push(b2);
                        if nx == usize::MAX {
                            break;
                        }
                        k = nx;
                        guard += 1;
                        if guard > n {
                            break;
                        }
                    }
                    out.push((a, w));
                    break 'search;
                }
            }
        }
    }
    (stats, out)
}
