mod c01;
mod c02;
mod c03;
mod c04;
mod c05;
mod c06;
mod c07;
mod c08;
mod c09;
mod c10;
mod c11;
mod c12;
mod c13;
mod c14;
mod c15;
mod c16;
mod c17;
mod c18;
mod c19;
mod core;
mod auto;
mod logcap;
mod prn;
mod proto;
mod rx;
mod sched;
mod srch;

fn main() {
    logcap::install();
    let args = core::Args::parse();
    match args.prop.to_lowercase().as_str() {
        "c01" => c01::run(&args),
        "c02" => c02::run(&args),
        "c03" => c03::run(&args),
        "c04" => c04::run(&args),
        "c05" => c05::run(&args),
        "c06" => c06::run(&args),
        "c07" => c07::run(&args),
        "c08" => c08::run(&args),
        "c09" => c09::run(&args),
        "c10" => c10::run(&args),
        "c11" => c11::run(&args),
        "c12" => c12::run(&args),
        "c13" => c13::run(&args),
        "c14" => c14::run(&args),
        "c15" => c15::run(&args),
        "c16" => c16::run(&args),
        "c17" => c17::run(&args),
        "c18" => c18::run(&args),
        "c19" => c19::run(&args),
        "rxprobe" => {
            // vp rxprobe <pattern> <escaped haystack>: what the regex engines say
            let pat = args.rest.get(0).cloned().unwrap_or_default();
            let hay = core::unesc(&args.rest.get(1).cloned().unwrap_or_default());
            let hir = regex_syntax::ParserBuilder::new().utf8(false).multi_line(true).build().parse(&pat).unwrap();
            let meta = regex_automata::meta::Regex::builder().configure(regex_automata::meta::Regex::config().utf8_empty(false)).build_from_hir(&hir).unwrap();
            let all: Vec<(usize, usize)> = meta.find_iter(&hay[..]).map(|m| (m.start(), m.end())).collect();
            println!("meta find_iter: {:?}", all);
            let nfa = regex_automata::nfa::thompson::Compiler::new()
                .configure(regex_automata::nfa::thompson::Config::new().utf8(false))
                .build_from_hir(&hir)
                .unwrap();
            let pike = regex_automata::nfa::thompson::pikevm::PikeVM::new_from_nfa(nfa).unwrap();
            let mut cache = pike.create_cache();
            let pv: Vec<(usize, usize)> = pike.find_iter(&mut cache, &hay[..]).map(|m| (m.start(), m.end())).collect();
            println!("pikevm find_iter: {:?}", pv);
            let re = regex::bytes::Regex::new(&format!("(?m){}", pat)).unwrap();
            let rv: Vec<(usize, usize)> = re.find_iter(&hay).map(|m| (m.start(), m.end())).collect();
            println!("regex crate find_iter: {:?}", rv);
            {
                use grep_matcher::Matcher;
                let o = rx::Opts::base(rx::Lt::Lf);
                let real = o.build(&[&pat]).unwrap();
                println!("real matcher final hir: {:?}", real.verif_final_hir().to_string());
                println!("real is_match: {:?} find: {:?} shortest: {:?}", real.is_match(&hay), real.find(&hay), real.shortest_match(&hay));
            }
            std::process::exit(0)
        }
        other => {
            eprintln!("unknown property or tool: {}", other);
            std::process::exit(64);
        }
    }
}
