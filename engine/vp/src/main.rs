mod c02;
mod c03;
mod c07;
mod c11;
mod c12;
mod c13;
mod c16;
mod core;
mod auto;
mod logcap;
mod rx;
mod sched;
mod srch;

fn main() {
    logcap::install();
    let args = core::Args::parse();
    match args.prop.to_lowercase().as_str() {
        "c02" => c02::run(&args),
        "c03" => c03::run(&args),
        "c07" => c07::run(&args),
        "c11" => c11::run(&args),
        "c12" => c12::run(&args),
        "c13" => c13::run(&args),
        "c16" => c16::run(&args),
        other => {
            eprintln!("unknown property or tool: {}", other);
            std::process::exit(64);
        }
    }
}
