//! C17 — transcoded input is searched as its UTF-8 equivalent. E1: every text
//! of a few code units per encoding x BOM / label combination x strategy x
//! read fragmentation x roll-buffer capacity x alignment to the 8 KiB
//! transcoding buffer; reference = encoding_rs applied in the harness, then a
//! plain slice search of the UTF-8 result.

use std::collections::BTreeMap;

use grep_regex::{RegexMatcher, RegexMatcherBuilder};
use grep_searcher::{BinaryDetection, Encoding, MmapChoice, SearcherBuilder};
use serde_json::json;

use crate::{core::*, srch::*};

#[derive(Clone, Debug)]
struct Enc {
    name: &'static str,
    label: Option<&'static str>,
    sniff: bool,
    bom: &'static [u8],
    units: Vec<Vec<u8>>,
    /// raw bytes that may be appended once at the end (e.g. an odd byte)
    tails: Vec<Vec<u8>>,
    /// one ASCII unit in the source encoding (for padding)
    pad: Vec<u8>,
}

fn u16le(cs: &[u16]) -> Vec<u8> {
    cs.iter().flat_map(|c| c.to_le_bytes()).collect()
}
fn u16be(cs: &[u16]) -> Vec<u8> {
    cs.iter().flat_map(|c| c.to_be_bytes()).collect()
}

fn encodings() -> Vec<Enc> {
    let u16units = |f: fn(&[u16]) -> Vec<u8>| -> Vec<Vec<u8>> {
        vec![f(&[0x61]), f(&[0x0A]), f(&[0xE9]), f(&[0x20AC]), f(&[0xD83D, 0xDE00]), f(&[0xD83D]), f(&[0xDE00])]
    };
    let utf8units: Vec<Vec<u8>> = vec![
        b"a".to_vec(), b"\n".to_vec(), "é".as_bytes().to_vec(), "€".as_bytes().to_vec(), "😀".as_bytes().to_vec(),
        vec![0xA9], vec![0xE2, 0x82], vec![0xFF],
    ];
    let latin: Vec<Vec<u8>> = vec![b"a".to_vec(), b"\n".to_vec(), vec![0xE9], vec![0x80], vec![0x81], vec![0xFF]];
    let sjis: Vec<Vec<u8>> = vec![b"a".to_vec(), b"\n".to_vec(), vec![0x82, 0xA0], vec![0xB1], vec![0x81], vec![0xFD], vec![0xA0]];
    let odd = vec![vec![], vec![0x61]];
    let none = vec![vec![]];
    vec![
        Enc { name: "auto+utf16le-bom", label: None, sniff: true, bom: &[0xFF, 0xFE], units: u16units(u16le), tails: odd.clone(), pad: u16le(&[0x78]) },
        Enc { name: "auto+utf16be-bom", label: None, sniff: true, bom: &[0xFE, 0xFF], units: u16units(u16be), tails: odd.clone(), pad: u16be(&[0x78]) },
        Enc { name: "auto+utf8-bom", label: None, sniff: true, bom: &[0xEF, 0xBB, 0xBF], units: utf8units.clone(), tails: none.clone(), pad: b"x".to_vec() },
        Enc { name: "auto+no-bom", label: None, sniff: true, bom: &[], units: utf8units.clone(), tails: none.clone(), pad: b"x".to_vec() },
        Enc { name: "utf-16le", label: Some("utf-16le"), sniff: true, bom: &[], units: u16units(u16le), tails: odd.clone(), pad: u16le(&[0x78]) },
        Enc { name: "utf-16be", label: Some("utf-16be"), sniff: true, bom: &[], units: u16units(u16be), tails: odd.clone(), pad: u16be(&[0x78]) },
        Enc { name: "utf-16le+be-bom", label: Some("utf-16le"), sniff: true, bom: &[0xFE, 0xFF], units: u16units(u16be), tails: odd.clone(), pad: u16be(&[0x78]) },
        Enc { name: "utf-16be+le-bom", label: Some("utf-16be"), sniff: true, bom: &[0xFF, 0xFE], units: u16units(u16le), tails: odd.clone(), pad: u16le(&[0x78]) },
        Enc { name: "latin1", label: Some("latin1"), sniff: true, bom: &[], units: latin.clone(), tails: none.clone(), pad: b"x".to_vec() },
        Enc { name: "latin1+utf8-bom", label: Some("latin1"), sniff: true, bom: &[0xEF, 0xBB, 0xBF], units: utf8units.clone(), tails: none.clone(), pad: b"x".to_vec() },
        Enc { name: "utf-8-label+utf8-bom", label: Some("utf-8"), sniff: true, bom: &[0xEF, 0xBB, 0xBF], units: utf8units.clone(), tails: none.clone(), pad: b"x".to_vec() },
        Enc { name: "shift_jis", label: Some("shift_jis"), sniff: true, bom: &[], units: sjis, tails: none.clone(), pad: b"x".to_vec() },
        Enc { name: "utf-8-label", label: Some("utf-8"), sniff: true, bom: &[], units: utf8units.clone(), tails: none.clone(), pad: b"x".to_vec() },
        Enc { name: "utf-8-label+utf16le-bom", label: Some("utf-8"), sniff: true, bom: &[0xFF, 0xFE], units: u16units(u16le), tails: odd.clone(), pad: u16le(&[0x78]) },
        Enc { name: "none+utf16le-bom", label: None, sniff: false, bom: &[0xFF, 0xFE], units: u16units(u16le), tails: odd.clone(), pad: u16le(&[0x78]) },
        Enc { name: "none+utf16be-bom", label: None, sniff: false, bom: &[0xFE, 0xFF], units: u16units(u16be), tails: none.clone(), pad: u16be(&[0x78]) },
        Enc { name: "none+utf8-bom", label: None, sniff: false, bom: &[0xEF, 0xBB, 0xBF], units: utf8units, tails: none, pad: b"x".to_vec() },
    ]
}

/// What the searcher is documented to search: the UTF-8 transcoding.
/// `utf8_mark_keeps_label` is the counterfactual switch of known finding
/// `utf8-mark-does-not-override-explicit-label`.
fn expected_utf8_sw(raw: &[u8], e: &Enc, utf8_mark_keeps_label: bool) -> Vec<u8> {
    if !e.sniff {
        return raw.to_vec();
    }
    if let Some((enc, bomlen)) = encoding_rs::Encoding::for_bom(raw) {
        if enc == encoding_rs::UTF_8 && utf8_mark_keeps_label && e.label.is_some() {
            let l = encoding_rs::Encoding::for_label(e.label.unwrap().as_bytes()).unwrap();
            return l.decode_without_bom_handling(&raw[bomlen..]).0.as_bytes().to_vec();
        }
        if enc == encoding_rs::UTF_8 {
            // UTF-8 detected by its mark: passed through, mark removed
            return raw[bomlen..].to_vec();
        }
        return enc.decode_without_bom_handling(&raw[bomlen..]).0.as_bytes().to_vec();
    }
    match e.label {
        None => raw.to_vec(),
        Some(l) => {
            let enc = encoding_rs::Encoding::for_label(l.as_bytes()).unwrap_or_else(|| machinery_error("unknown encoding label"));
            enc.decode_without_bom_handling(raw).0.as_bytes().to_vec()
        }
    }
}

fn expected_utf8(raw: &[u8], e: &Enc) -> Vec<u8> {
    expected_utf8_sw(raw, e, false)
}

/// The expected stream under every combination of the counterfactual
/// switches "a UTF-8 mark does not override an explicit label" and "the
/// decoder's end-of-input flush is lost" (the third switch, tail truncation
/// on tiny reads, is applied by the caller).
fn counterfactuals(raw: &[u8], e: &Enc) -> Vec<(Vec<u8>, Vec<&'static str>)> {
    let mut out: Vec<(Vec<u8>, Vec<&'static str>)> = vec![(expected_utf8(raw, e), vec![])];
    let alt = expected_utf8_sw(raw, e, true);
    if alt != out[0].0 {
        out.push((alt, vec!["utf8-mark-does-not-override-explicit-label"]));
    }
    if !e.sniff {
        return out;
    }
    // without the final flush, for the decoder in effect under each reading
    let bom = encoding_rs::Encoding::for_bom(raw);
    let mut decoders: Vec<(&'static encoding_rs::Encoding, usize, Vec<&'static str>)> = vec![];
    match bom {
        Some((enc, n)) if enc != encoding_rs::UTF_8 => decoders.push((enc, n, vec![])),
        Some((_, n)) => {
            if let Some(l) = e.label.and_then(|l| encoding_rs::Encoding::for_label(l.as_bytes())) {
                decoders.push((l, n, vec!["utf8-mark-does-not-override-explicit-label"]));
            }
        }
        None => {
            if let Some(l) = e.label.and_then(|l| encoding_rs::Encoding::for_label(l.as_bytes())) {
                decoders.push((l, 0, vec![]));
            }
        }
    }
    for (enc, skip, mut used) in decoders {
        if enc == encoding_rs::UTF_16LE || enc == encoding_rs::UTF_16BE {
            continue;
        }
        let body = &raw[skip..];
        let mut dec = enc.new_decoder_without_bom_handling();
        let mut buf = vec![0u8; body.len() * 4 + 16];
        let (_, _, n, _) = dec.decode_to_utf8(body, &mut buf, false);
        buf.truncate(n);
        if !out.iter().any(|(c, _)| *c == buf) {
            used.push("incomplete-trailing-sequence-dropped-at-eof");
            out.push((buf, used));
        }
    }
    out
}

fn matcher(pat: &str, multi: bool) -> RegexMatcher {
    let mut b = RegexMatcherBuilder::new();
    b.multi_line(true);
    if !multi {
        b.line_terminator(Some(b'\n'));
    }
    b.build(pat).unwrap_or_else(|_| machinery_error("C17 pattern"))
}

#[derive(Clone, Copy, Debug, PartialEq, Eq, Hash, PartialOrd, Ord)]
enum St {
    Slice,
    Reader { cap: usize },
    PathMmap,
    PathNoMmap,
}

fn searcher(e: &Enc, multi: bool, cap: Option<usize>, mmap: bool) -> grep_searcher::Searcher {
    let mut b = SearcherBuilder::new();
    b.line_number(true).multi_line(multi).binary_detection(BinaryDetection::none());
    b.memory_map(if mmap { unsafe { MmapChoice::auto() } } else { MmapChoice::never() });
    b.bom_sniffing(e.sniff);
    if let Some(l) = e.label {
        b.encoding(Some(Encoding::new(l).unwrap_or_else(|_| machinery_error("encoding label"))));
    }
    if let Some(c) = cap {
        b.verif_buffer_capacity(Some(c));
    }
    b.build()
}

fn reference_events(utf8: &[u8], m: &RegexMatcher, multi: bool) -> Vec<Ev> {
    let mut b = SearcherBuilder::new();
    b.line_number(true).multi_line(multi).binary_detection(BinaryDetection::none()).bom_sniffing(false);
    let mut s = b.build();
    let mut rec = Rec::new();
    let _ = s.search_slice(m, utf8, &mut rec);
    rec.events
}

fn compositions_small(n: usize) -> Vec<Vec<usize>> {
    if n == 0 || n > 8 {
        return vec![vec![], vec![1; n.max(1)], vec![2; n.max(1)], vec![3, 1, 2, 5], vec![7, 1]];
    }
    let mut out = vec![];
    for mask in 0..(1u32 << (n - 1)) {
        let mut parts = vec![];
        let mut cur = 1;
        for i in 0..n - 1 {
            if mask >> i & 1 == 1 {
                parts.push(cur);
                cur = 1;
            } else {
                cur += 1;
            }
        }
        parts.push(cur);
        out.push(parts);
    }
    out
}

#[derive(Default)]
struct Acc {
    runs: u64,
    nontrivial: u64,
    with_replacement: u64,
    boundary_runs: u64,
    known: BTreeMap<&'static str, (u64, String)>,
    disc: Vec<(String, serde_json::Value)>,
}

pub fn run(args: &Args) -> ! {
    if let Some(r) = &args.replay {
        replay(r);
    }
    let tier = args.tier;
    let mut ev = Evidence::new(args, "exploration");
    let mut verdict = Verdict::new("C17");
    let scratch = Scratch::new("c17");
    let encs = encodings();
    let maxunits = tier.pick(3, 4);
    let pats: Vec<(&str, bool)> = vec![("a", false), ("\u{FFFD}", false), ("é|€|😀|あ|ｱ", false), ("a\\n?", true)];
    // work items: (encoding, text index)
    let mut work: Vec<(usize, Vec<usize>, usize)> = vec![];
    for (ei, e) in encs.iter().enumerate() {
        let n = seq_count(e.units.len(), maxunits);
        let mut idx = vec![];
        for i in 0..n {
            seq_decode(e.units.len(), i, &mut idx);
            for t in 0..e.tails.len() {
                work.push((ei, idx.clone(), t));
            }
        }
    }
    let matchers: Vec<RegexMatcher> = pats.iter().map(|(p, m)| matcher(p, *m)).collect();
    let mut total = Acc::default();
    let sp = scratch.path.clone();
    par_fold(
        work.len(),
        16,
        Acc::default,
        |acc, wi| {
            let (ei, ref idx, t) = work[wi];
            let e = &encs[ei];
            let mut body: Vec<u8> = vec![];
            for &u in idx.iter() {
                body.extend(&e.units[u]);
            }
            body.extend(&e.tails[t]);
            // plain, and aligned to the 8 KiB transcoding buffer
            let mut raws: Vec<(i64, Vec<u8>)> = vec![];
            let mut r0 = e.bom.to_vec();
            r0.extend(&body);
            raws.push((i64::MIN, r0));
            if !idx.is_empty() && wi % tier.pick(4, 1) == 0 {
                for d in -6i64..=6 {
                    let target = (8192 - d) as usize;
                    let mut r = e.bom.to_vec();
                    while r.len() + e.pad.len() <= target {
                        r.extend(&e.pad);
                    }
                    r.extend(&body);
                    raws.push((d, r));
                }
            }
            let file = sp.join(format!("f{}", wi));
            for (d, raw) in raws.iter() {
                let utf8 = expected_utf8(raw, e);
                let boundary = *d != i64::MIN;
                let wrote = std::fs::write(&file, raw).is_ok();
                for (pi, m) in matchers.iter().enumerate() {
                    let multi = pats[pi].1;
                    let reference = reference_events(&utf8, m, multi);
                    if reference.len() > 2 {
                        acc.nontrivial += 1;
                    }
                    let mut strategies: Vec<(St, Vec<usize>)> = vec![(St::Slice, vec![]), (St::PathMmap, vec![]), (St::PathNoMmap, vec![])];
                    if boundary {
                        for sizes in [vec![], vec![8191, 1, 1, 1], vec![8190, 3], vec![4096, 4095, 1, 1, 1, 1, 1], vec![1000; 20]] {
                            strategies.push((St::Reader { cap: 8 }, sizes));
                        }
                    } else {
                        for cap in [1usize, 3, 8] {
                            for sizes in compositions_small(raw.len()) {
                                strategies.push((St::Reader { cap }, sizes));
                            }
                        }
                    }
                    for (st, sizes) in strategies.iter() {
                        if !wrote && matches!(st, St::PathMmap | St::PathNoMmap) {
                            continue;
                        }
                        let mut rec = Rec::new();
                        let res = match st {
                            St::Slice => searcher(e, multi, None, false).search_slice(m, raw, &mut rec),
                            St::Reader { cap } => searcher(e, multi, Some(*cap), false).search_reader(m, FragReader::new(raw, sizes, 4096), &mut rec),
                            St::PathMmap => searcher(e, multi, None, true).search_path(m, &file, &mut rec),
                            St::PathNoMmap => searcher(e, multi, None, false).search_path(m, &file, &mut rec),
                        };
                        acc.runs += 1;
                        if boundary {
                            acc.boundary_runs += 1;
                        }
                        if utf8.windows(3).any(|w| w == [0xEF, 0xBF, 0xBD]) {
                            acc.with_replacement += 1;
                        }
                        if res.is_err() || rec.events != reference {
                            // Known findings (all three inside the
                            // encoding_rs_io / encoding_rs dependencies, see
                            // known_findings.json). Each has a counterfactual
                            // switch in the reference; a discrepancy is
                            // attributed iff the reference with some
                            // combination of those switches — and nothing
                            // else — reproduces the delivered events exactly.
                            let small_reads_possible = multi || matches!(st, St::Reader { cap } if *cap < 16);
                            let mut explained: Option<Vec<&'static str>> = None;
                            if res.is_ok() {
                                'outer: for (cand, used) in counterfactuals(raw, e) {
                                    let kmax = if small_reads_possible { 6usize.min(cand.len()) } else { 0 };
                                    for k in 0..=kmax {
                                        if used.is_empty() && k == 0 {
                                            continue;
                                        }
                                        if rec.events == reference_events(&cand[..cand.len() - k], m, multi) {
                                            let mut u = used.clone();
                                            if k > 0 {
                                                u.push("transcoder-drops-pending-bytes-after-eof-on-tiny-reads");
                                            }
                                            explained = Some(u);
                                            break 'outer;
                                        }
                                    }
                                }
                            }
                            if let Some(used) = explained {
                                for f in used {
                                    let ent = acc.known.entry(f).or_insert((0, format!("{} | {:?} | {} | {}", e.name, st, pats[pi].0, esc(&body))));
                                    ent.0 += 1;
                                }
                            } else if acc.disc.len() < 60 {
                                acc.disc.push((
                                    format!("{} | {:?} | {} | d={} | {}", e.name, st, pats[pi].0, if boundary { d.to_string() } else { "-".into() }, esc(&body)),
                                    json!({
                                        "kind": "transcoding", "encoding": e.name, "strategy": format!("{:?}", st), "read_sizes": sizes,
                                        "pattern": pats[pi].0, "multi_line": multi, "pad_to_8192_minus": if boundary { json!(d) } else { json!(null) },
                                        "raw_tail": esc(&raw[raw.len().saturating_sub(40)..]), "raw_len": raw.len(),
                                        "expected_utf8_tail": esc(&utf8[utf8.len().saturating_sub(40)..]),
                                        "delivered": show(&rec.events[..rec.events.len().min(6)]), "reference": show(&reference[..reference.len().min(6)]),
                                        "error": res.err().map(|e| e.to_string()),
                                        "enc_index": ei, "units": idx, "tail": t,
                                    }),
                                ));
                            }
                        }
                    }
                }
            }
            let _ = std::fs::remove_file(&file);
        },
        |a| {
            total.runs += a.runs;
            total.nontrivial += a.nontrivial;
            total.with_replacement += a.with_replacement;
            total.boundary_runs += a.boundary_runs;
            for (k, (n, ex)) in a.known {
                total.known.entry(k).or_insert((0, ex)).0 += n;
            }
            total.disc.extend(a.disc);
        },
    );
    // ---- the command line's flag mapping (auto / -E label / -E none): the
    // real binary on one text per BOM / label combination, memory-mapped and
    // not, against `rg -E none` on the expected transcoding ------------------
    {
        use std::process::Command;
        let rg = build_rg();
        let mut cli_runs = 0u64;
        for (ei, e) in encs.iter().enumerate() {
            let mut raw = e.bom.to_vec();
            for u in e.units.iter().chain(e.units.iter().take(2)) {
                raw.extend(u);
            }
            let file = scratch.path.join(format!("cli{}.txt", ei));
            let reff = scratch.path.join(format!("cli{}.ref", ei));
            std::fs::write(&file, &raw).unwrap_or_else(|_| machinery_error("scratch"));
            let run = |path: &std::path::Path, enc_args: &[&str], mm: &str, pat: &[&str]| -> (Vec<u8>, i32) {
                let out = Command::new(&rg)
                    .current_dir(&scratch.path)
                    .args(["--no-config", "--color", "never", "-n", "--no-heading", "-a", mm])
                    .args(enc_args)
                    .args(pat)
                    .arg(path.file_name().unwrap())
                    .output()
                    .unwrap_or_else(|_| machinery_error("cannot run rg"));
                (out.stdout, out.status.code().unwrap_or(-1))
            };
            let enc_args: Vec<&str> = if !e.sniff {
                vec!["-E", "none"]
            } else if let Some(l) = e.label {
                vec!["-E", l]
            } else {
                vec![]
            };
            for pat in [vec!["a"], vec!["-U", "a\\n?"], vec!["-c", "-v", "zzz"]] {
                let pat: Vec<String> = pat.iter().map(|p| p.replace("\\\\", "\\")).collect();
                let pat: Vec<&str> = pat.iter().map(|p| p.as_str()).collect();
                for mm in ["--mmap", "--no-mmap"] {
                    let got = run(&file, &enc_args, mm, &pat);
                    cli_runs += 1;
                    let mut ok = false;
                    let mut by: Option<Vec<&'static str>> = None;
                    for (cand, used) in counterfactuals(&raw, e) {
                        std::fs::write(&reff, &cand).unwrap_or_else(|_| machinery_error("scratch"));
                        let want = run(&reff, &["-E", "none"], "--no-mmap", &pat);
                        // (the file name differs: compare the records, not the names — none is printed for a single file)
                        if want == got {
                            if used.is_empty() {
                                ok = true;
                            } else {
                                by = Some(used);
                            }
                            break;
                        }
                    }
                    if ok {
                        continue;
                    }
                    match by {
                        Some(used) => {
                            for f in used {
                                let ent = total.known.entry(f).or_insert((0, format!("command line | {} | {:?} {}", e.name, pat, mm)));
                                ent.0 += 1;
                            }
                        }
                        None => {
                            std::fs::write(&reff, expected_utf8(&raw, e)).unwrap_or_else(|_| machinery_error("scratch"));
                            let want = run(&reff, &["-E", "none"], "--no-mmap", &pat);
                            total.disc.push((
                                format!("command line | {} | {:?} {}", e.name, pat, mm),
                                json!({"kind":"command-line-flag-mapping","encoding":e.name,"args":enc_args,"pattern":pat,"mmap":mm,"input":esc(&raw),
                                       "stdout":esc(&got.0),"status":got.1,"expected_stdout":esc(&want.0),"expected_status":want.1}),
                            ));
                        }
                    }
                }
            }
        }
        ev.set("command_line_runs", cli_runs);
    }
    for (k, v) in total.disc.iter() {
        verdict.discrepancy(None, k, v.clone());
    }
    for (f, (n, ex)) in total.known.iter() {
        verdict.discrepancy(Some(f), ex, json!({"kind":"transcoding-known","example":ex}));
        if let Some(e) = verdict.known_seen.get_mut(*f) {
            e.0 = *n as usize;
        }
    }
    if total.with_replacement == 0 || total.boundary_runs == 0 || total.nontrivial == 0 {
        machinery_error("C17: a mandatory coverage counter is zero");
    }
    ev.set("evaluations", total.runs);
    ev.set("distinct_nontrivial", total.nontrivial);
    ev.set("exhaustive", true);
    ev.set("texts_x_encodings", work.len());
    ev.set("runs_on_texts_with_replacement_characters", total.with_replacement);
    ev.set("runs_aligned_to_the_8KiB_transcoding_buffer", total.boundary_runs);
    ev.set("encodings", encs.iter().map(|e| e.name).collect::<Vec<_>>());
    ev.set(
        "rule",
        format!(
            "texts: every sequence of <= {} units per source encoding (UTF-16: a, \\n, é, €, a surrogate pair, a lone high and a lone low surrogate, optional trailing odd byte; UTF-8: a, \\n, é, €, 😀, a lone continuation byte, a truncated lead, 0xFF; latin1 and shift_jis analogues) under {} BOM/label combinations (BOM overriding a conflicting label, --encoding none with a mark); each text also placed behind padding so that it starts at source offset 8192-d for d in -6..6. Strategies: search_slice, search_path with and without mmap, search_reader with roll-buffer capacity 1/3/8 x every composition of the input length as read sizes (inputs up to 8 bytes; fixed fragmentations otherwise, including splits at the 8 KiB boundary); four patterns (one multi-line). Reference: encoding_rs applied in the harness (mark sniffed, mark overrides label, malformed -> U+FFFD, mark removed; UTF-8 by mark passed through; sniffing off: raw bytes) then search_slice without transcoding; the full Sink event streams must be equal. Command-line layer: the real binary with no -E / -E label / -E none on one text per BOM / label combination, --mmap and --no-mmap, three searches (plain, -U, -c -v), against rg -E none on the expected transcoding.",
            maxunits, encs.len()
        ),
    );
    ev.set("samples", json!([{"encoding": "utf-16le+be-bom", "units": "a, lone high surrogate, \\n", "strategy": "Reader cap 1, read sizes [1,1,2,1,...]"}]));
    ev.assume("encoding_rs is the specification of each encoding's decoding");
    drop(scratch);
    verdict.finish(ev)
}

fn replay(path: &str) -> ! {
    let text = std::fs::read_to_string(path).unwrap_or_else(|_| machinery_error("cannot read replay"));
    let v: serde_json::Value = serde_json::from_str(&text).unwrap_or_else(|_| machinery_error("bad replay"));
    if v["kind"] == "command-line-flag-mapping" {
        // the recorded command line on the recorded input, against the recorded expectation
        let scratch = Scratch::new("c17r");
        let rg = build_rg();
        let raw = unesc(v["input"].as_str().unwrap_or(""));
        std::fs::write(scratch.path.join("cli.txt"), &raw).unwrap_or_else(|_| machinery_error("scratch"));
        let strs = |x: &serde_json::Value| -> Vec<String> { x.as_array().map(|a| a.iter().filter_map(|s| s.as_str().map(|s| s.to_string())).collect()).unwrap_or_default() };
        let out = std::process::Command::new(&rg)
            .current_dir(&scratch.path)
            .args(["--no-config", "--color", "never", "-n", "--no-heading", "-a", v["mmap"].as_str().unwrap_or("--no-mmap")])
            .args(strs(&v["args"]))
            .args(strs(&v["pattern"]))
            .arg("cli.txt")
            .output()
            .unwrap_or_else(|_| machinery_error("cannot run rg"));
        let same = esc(&out.stdout) == v["expected_stdout"].as_str().unwrap_or("") && out.status.code().map(|c| c as i64) == v["expected_status"].as_i64();
        println!("rg {:?} {:?} on {}\nstdout   {}\nexpected {}", strs(&v["args"]), strs(&v["pattern"]), esc(&raw), esc(&out.stdout), v["expected_stdout"].as_str().unwrap_or(""));
        std::process::exit(if same { 0 } else { 1 })
    }
    let encs = encodings();
    let e = &encs[v["enc_index"].as_u64().unwrap_or(0) as usize];
    let mut body = vec![];
    for u in v["units"].as_array().into_iter().flatten() {
        body.extend(&e.units[u.as_u64().unwrap() as usize]);
    }
    body.extend(&e.tails[v["tail"].as_u64().unwrap_or(0) as usize]);
    let mut raw = e.bom.to_vec();
    if let Some(d) = v["pad_to_8192_minus"].as_i64() {
        let target = (8192 - d) as usize;
        while raw.len() + e.pad.len() <= target {
            raw.extend(&e.pad);
        }
    }
    raw.extend(&body);
    let multi = v["multi_line"].as_bool().unwrap_or(false);
    let m = matcher(v["pattern"].as_str().unwrap_or("a"), multi);
    let utf8 = expected_utf8(&raw, e);
    let reference = reference_events(&utf8, &m, multi);
    let sizes: Vec<usize> = v["read_sizes"].as_array().map(|a| a.iter().map(|x| x.as_u64().unwrap() as usize).collect()).unwrap_or_default();
    let st = v["strategy"].as_str().unwrap_or("Slice");
    let mut rec = Rec::new();
    let res = if st.starts_with("Reader") {
        let cap: usize = st.split(|c: char| !c.is_ascii_digit()).find(|x| !x.is_empty()).and_then(|x| x.parse().ok()).unwrap_or(8);
        searcher(e, multi, Some(cap), false).search_reader(&m, FragReader::new(&raw, &sizes, 4096), &mut rec)
    } else {
        searcher(e, multi, None, false).search_slice(&m, &raw, &mut rec)
    };
    println!("encoding {} raw {} bytes\nexpected utf8 tail {}\ndelivered {}\nreference {}", e.name, raw.len(), esc(&utf8[utf8.len().saturating_sub(40)..]), show(&rec.events), show(&reference));
    std::process::exit(if res.is_ok() && rec.events == reference { 0 } else { 1 })
}
