//! C04 — ignore files mean what git says they mean. E1 with git itself as the
//! oracle: for every ignore-file content over a token grammar (single lines,
//! pairs of lines, root + nested file) the set of files the REAL walker
//! yields on a fixed 156-file tree is compared with
//! `git ls-files -o --exclude-standard`.

use std::{
    collections::{BTreeMap, BTreeSet},
    path::{Path, PathBuf},
    process::Command,
};

use ignore::WalkBuilder;
use serde_json::{json, Value};

use crate::core::*;

const TOKENS: &[&str] = &["a", "b", ".", "*", "?", "**", "/", "!", "\\", "[ab]", "[!a]", "#", " "];

fn tree_files() -> Vec<String> {
    let names_all = ["ab", "a.b", ".a", "a-b", "a*", "[a]", "a?", "c", "a", "b", "A", "a."];
    let d1 = ["a", "b", "a.", "A"];
    let d2 = ["a", "b"];
    let mut out = vec![];
    for n in names_all.iter() {
        if !d1.contains(n) {
            out.push(n.to_string());
        }
    }
    for d in d1.iter() {
        for n in names_all.iter() {
            if !d2.contains(n) {
                out.push(format!("{}/{}", d, n));
            }
        }
        for e in d2.iter() {
            for n in names_all.iter() {
                out.push(format!("{}/{}/{}", d, e, n));
            }
        }
    }
    // names that end in a blank or contain a backslash (for escaped and
    // unescaped trailing blanks)
    for n in ["a ", "a\\", "a\\ ", "b  "] {
        out.push(n.to_string());
    }
    // a deeper branch (files at depth 4) for patterns with several literal
    // components
    for x in d2.iter() {
        for y in d2.iter() {
            for z in d2.iter() {
                out.push(format!("d/{}/{}/{}", x, y, z));
            }
        }
    }
    out
}

struct Repo {
    root: PathBuf,
    _scratch: Scratch,
}

impl Repo {
    fn new() -> Repo {
        let scratch = Scratch::new("c04");
        let root = scratch.path.join("r");
        std::fs::create_dir_all(&root).unwrap_or_else(|_| machinery_error("scratch"));
        for f in tree_files() {
            let p = root.join(&f);
            std::fs::create_dir_all(p.parent().unwrap()).unwrap_or_else(|_| machinery_error("scratch dir"));
            std::fs::write(&p, b"x").unwrap_or_else(|_| machinery_error("scratch file"));
        }
        let ok = Command::new("git")
            .args(["init", "-q"])
            .current_dir(&root)
            .env("HOME", &scratch.path)
            .env("GIT_CONFIG_NOSYSTEM", "1")
            .status()
            .map_or(false, |s| s.success());
        if !ok {
            machinery_error("git init failed");
        }
        Repo { root, _scratch: scratch }
    }

    fn git_files(&self, icase: bool) -> Result<BTreeSet<String>, String> {
        let mut cmd = Command::new("git");
        cmd.current_dir(&self.root)
            .env("HOME", self.root.parent().unwrap())
            .env("GIT_CONFIG_NOSYSTEM", "1")
            .args(["-c", "core.excludesFile=", "-c", "core.quotePath=false"]);
        if icase {
            cmd.args(["-c", "core.ignorecase=true"]);
        }
        cmd.args(["ls-files", "-o", "--exclude-standard", "-z"]);
        let out = cmd.output().map_err(|e| e.to_string())?;
        if !out.status.success() {
            return Err(String::from_utf8_lossy(&out.stderr).to_string());
        }
        Ok(out.stdout.split(|&b| b == 0).filter(|s| !s.is_empty()).map(|s| String::from_utf8_lossy(s).to_string()).filter(|s| !s.ends_with(".gitignore")).collect())
    }

    fn walker_files(&self, icase: bool) -> BTreeSet<String> {
        self.walker_files_in_order(icase, None)
    }

    /// `order`: visit the entries of each directory sorted by name, ascending
    /// (Some(false)) or descending (Some(true)); None = as the directory
    /// lists them. What is ignored must not depend on the order of the visit
    /// (a nested ignore file applies to its own subtree only, whatever was
    /// visited before).
    fn walker_files_in_order(&self, icase: bool, order: Option<bool>) -> BTreeSet<String> {
        let mut b = WalkBuilder::new(&self.root);
        b.standard_filters(false).git_ignore(true).require_git(false).parents(false).ignore_case_insensitive(icase).threads(1);
        match order {
            Some(false) => {
                b.sort_by_file_name(|a, b| a.cmp(b));
            }
            Some(true) => {
                b.sort_by_file_name(|a, b| b.cmp(a));
            }
            None => {}
        }
        let mut out = BTreeSet::new();
        for ent in b.build() {
            let Ok(ent) = ent else { continue };
            if ent.file_type().map_or(false, |t| t.is_file()) {
                let rel = ent.path().strip_prefix(&self.root).unwrap().to_string_lossy().to_string();
                if rel.starts_with(".git/") || rel.ends_with(".gitignore") {
                    continue;
                }
                out.insert(rel);
            }
        }
        out
    }
}

#[derive(Clone, Debug)]
struct Case {
    root: String,
    nested: Option<String>,
    icase: bool,
    /// directory holding the nested ignore file
    ndir: &'static str,
}

fn lines(maxlen: usize) -> Vec<String> {
    let n = seq_count(TOKENS.len(), maxlen);
    let mut idx = vec![];
    (1..n)
        .map(|i| {
            seq_decode(TOKENS.len(), i, &mut idx);
            idx.iter().map(|&t| TOKENS[t]).collect::<String>()
        })
        .collect()
}

/// Lines for which git gives no usable specification (see DESIGN.md §8).
fn degenerate(line: &str) -> Option<&'static str> {
    if line.contains("//") {
        return Some("contains //");
    }
    if line.contains("\\/") {
        return Some("backslash before /");
    }
    // In a pattern that is matched against the whole path (it has a
    // separator other than a trailing one), a `**` that is not a whole path
    // component, or a run of three or more stars, is documented by git as
    // "regular asterisks" but git 2.39 lets it span directories: git
    // contradicts its own specification there, so there is no oracle.
    // (Slash-less patterns are matched against the basename; no issue.)
    let t = line.trim_end_matches(' ');
    let t = t.strip_prefix('!').unwrap_or(t);
    let anchored = t.starts_with('/');
    let body = t.strip_prefix('/').unwrap_or(t);
    let body = body.strip_suffix('/').unwrap_or(body);
    if anchored || body.contains('/') {
        let b = body.as_bytes();
        let mut i = 0;
        while i < b.len() {
            if b[i] == b'*' {
                let st = i;
                while i < b.len() && b[i] == b'*' {
                    i += 1;
                }
                let k = i - st;
                let escaped = st > 0 && b[st - 1] == b'\\';
                if k >= 2 && !escaped {
                    let left_ok = st == 0 || b[st - 1] == b'/';
                    let right_ok = i == b.len() || b[i] == b'/';
                    if k > 2 || !left_ok || !right_ok {
                        return Some("** that is not a whole path component in a path pattern");
                    }
                }
            } else {
                i += 1;
            }
        }
    }
    None
}

#[derive(Default)]
struct Acc {
    cases: u64,
    nontrivial: u64,
    skipped_degenerate: u64,
    disc: Vec<(Option<&'static str>, String, Value)>,
    classes: BTreeMap<String, u64>,
}

/// Reference of the documented gitignore semantics restricted to what is
/// needed to attribute the known finding: does the line contain a bracket
/// class, and would the discrepancy vanish if classes could not match '/'?
fn has_class(s: &str) -> bool {
    s.contains("[ab]") || s.contains("[!a]")
}

pub fn run(args: &Args) -> ! {
    if let Some(r) = &args.replay {
        replay(r);
    }
    let tier = args.tier;
    let mut ev = Evidence::new(args, "exploration");
    let mut verdict = Verdict::new("C04");
    let singles = lines(tier.pick(4, 5));
    let shorts = lines(tier.pick(1, 2));
    let mut cases: Vec<Case> = vec![];
    for l in singles.iter() {
        cases.push(Case { root: format!("{}\n", l), nested: None, icase: false, ndir: "a" });
    }
    // ordered pairs (last match wins, negation, un-re-includable parents)
    let pair_lines = lines(2);
    let pl: Vec<&String> = if tier == Tier::Quick { pair_lines.iter().step_by(2).collect() } else { pair_lines.iter().collect() };
    for a in pl.iter() {
        for b in pl.iter() {
            cases.push(Case { root: format!("{}\n{}\n", a, b), nested: None, icase: false, ndir: "a" });
        }
    }
    // root line + nested a/.gitignore line
    for a in pl.iter() {
        for b in pl.iter().step_by(tier.pick(3, 1)) {
            cases.push(Case { root: format!("{}\n", a), nested: Some(format!("{}\n", b)), icase: false, ndir: "a" });
        }
    }
    // the same with the nested file two and three levels down, in the LAST
    // directory of a descending visit (the walker then leaves several levels
    // at once and still has root entries to visit)
    for nd in ["d", "d/a"] {
        for a in pl.iter().step_by(tier.pick(4, 1)) {
            for b in pl.iter().step_by(tier.pick(3, 1)) {
                cases.push(Case { root: format!("{}\n", a), nested: Some(format!("{}\n", b)), icase: false, ndir: nd });
            }
        }
    }
    // case-insensitive variants, comments, trailing blanks
    for l in singles.iter().step_by(tier.pick(5, 1)) {
        cases.push(Case { root: format!("{}\n", l), nested: None, icase: true, ndir: "a" });
    }
    for l in shorts.iter() {
        for suffix in [" ", "  ", "\\ ", " #", "\t", "\\  ", "\\\\ ", "\\ \\ ", " \\ ", "\\\\\\ "] {
            cases.push(Case { root: format!("{}{}\n", l, suffix), nested: None, icase: false, ndir: "a" });
        }
        cases.push(Case { root: format!("# c\n\n{}\n", l), nested: None, icase: false, ndir: "a" });
        cases.push(Case { root: format!("A{}\n", l), nested: None, icase: true, ndir: "a" });
    }
    // a UTF-8 byte-order mark at the start of the file (git skips it)
    for l in shorts.iter() {
        cases.push(Case { root: format!("\u{feff}{}\n", l), nested: None, icase: false, ndir: "a" });
        cases.push(Case { root: format!("\u{feff}{}\nb\n", l), nested: Some(format!("\u{feff}!{}\n", l)), icase: false, ndir: "a" });
    }
    // several `**/lit/lit` lines in one file (served together by one
    // multi-literal suffix matcher): ordered pairs with every negation
    // pattern, and triples ignore / re-include / ignore
    {
        let mut pool: Vec<String> = vec![];
        for x in ["a", "b"] {
            for y in ["a", "b"] {
                pool.push(format!("**/{}/{}", x, y));
                for z in ["a", "b"] {
                    pool.push(format!("**/{}/{}/{}", x, y, z));
                }
            }
        }
        for a in pool.iter() {
            for b in pool.iter() {
                for (na, nb) in [("", ""), ("!", ""), ("", "!")] {
                    cases.push(Case { root: format!("{}{}\n{}{}\n", na, a, nb, b), nested: None, icase: false, ndir: "a" });
                }
                for c in pool.iter().step_by(tier.pick(3, 1)) {
                    cases.push(Case { root: format!("{}\n!{}\n{}\n", a, b, c), nested: None, icase: false, ndir: "a" });
                }
            }
        }
    }
    // several rules whose glob ends in the same literal extension behind a
    // wildcard (served together by the required-extension matcher): ordered
    // pairs with every negation pattern
    {
        let pool = ["a*.b", "?.b", "[a].b", "*a.b", "/a*.b", "a/?.b", "a?.b", "A*.b"];
        for a in pool {
            for b in pool {
                for (na, nb) in [("", ""), ("!", ""), ("", "!")] {
                    cases.push(Case { root: format!("{}{}\n{}{}\n", na, a, nb, b), nested: None, icase: false, ndir: "a" });
                }
            }
        }
    }
    // `dir/*` style rules (a literal prefix followed by one wildcard component)
    // with a later re-include of something below: the wildcard must not reach
    // further down than one component
    {
        let stars = ["/d/*", "d/*", "/d/a/*", "d/a/*", "/a/*", "/b/*", "/d/*/", "/d/a/?", "/A/*"];
        let backs = ["!/d/a/", "!/d/a", "!d/a/b/", "!/d/a/b", "!/d/b/a/", "!/a/b/", "!/a/a", "!/b/a/", "!/A/a/"];
        for st in stars {
            cases.push(Case { root: format!("{}\n", st), nested: None, icase: false, ndir: "a" });
            for bk in backs {
                cases.push(Case { root: format!("{}\n{}\n", st, bk), nested: None, icase: false, ndir: "a" });
                cases.push(Case { root: format!("{}\n{}\n", st, bk), nested: None, icase: true, ndir: "a" });
            }
        }
    }
    let ncases = cases.len();
    let shards = ncpu();
    let next = std::sync::atomic::AtomicUsize::new(0);
    let total = std::sync::Mutex::new(Acc::default());
    std::thread::scope(|s| {
        for _ in 0..shards {
            s.spawn(|| {
                let repo = Repo::new();
                let mut acc = Acc::default();
                loop {
                    let i = next.fetch_add(1, std::sync::atomic::Ordering::Relaxed);
                    if i >= ncases {
                        break;
                    }
                    let c = &cases[i];
                    if let Some(_) = c.root.lines().chain(c.nested.iter().flat_map(|n| n.lines())).find_map(degenerate) {
                        acc.skipped_degenerate += 1;
                        continue;
                    }
                    std::fs::write(repo.root.join(".gitignore"), &c.root).unwrap_or_else(|_| machinery_error("write .gitignore"));
                    for nd in ["a", "d", "d/a"] {
                        if nd != c.ndir || c.nested.is_none() {
                            let _ = std::fs::remove_file(repo.root.join(nd).join(".gitignore"));
                        }
                    }
                    let nested_path = repo.root.join(c.ndir).join(".gitignore");
                    match &c.nested {
                        Some(n) => std::fs::write(&nested_path, n).unwrap_or_else(|_| machinery_error("write nested")),
                        None => {
                            let _ = std::fs::remove_file(&nested_path);
                        }
                    }
                    let want = match repo.git_files(c.icase) {
                        Ok(w) => w,
                        Err(_) => {
                            acc.skipped_degenerate += 1;
                            continue;
                        }
                    };
                    let mut got = repo.walker_files(c.icase);
                    if c.nested.is_some() {
                        // (a discrepancy in either sorted order is reported
                        // through the same comparison below)
                        for rev in [false, true] {
                            let g2 = repo.walker_files_in_order(c.icase, Some(rev));
                            if g2 != want {
                                got = g2;
                            }
                        }
                    }
                    acc.cases += 1;
                    if want.len() < 156 {
                        acc.nontrivial += 1;
                    }
                    if got != want {
                        let extra: Vec<&String> = got.difference(&want).collect();
                        let missing: Vec<&String> = want.difference(&got).collect();
                        // known finding: a bracket class consumes '/'
                        let all = format!("{}{}", c.root, c.nested.clone().unwrap_or_default());
                        // Known finding `negated-class-crosses-separator`,
                        // attributed by a counterfactual run of the REAL
                        // walker: rewrite every negated class [!x] to [!x/]
                        // (so that it cannot consume a separator); if the
                        // walker then agrees with git on the ORIGINAL file,
                        // the discrepancy is explained by that mechanism only.
                        let mut class_cross = false;
                        if all.contains("[!a]") {
                            // (a class that names '/' makes the line a path
                            // pattern, so a line that had no separator gets an
                            // explicit `**/` prefix to keep its meaning)
                            let rw = |s: &str| -> String {
                                s.lines()
                                    .map(|l| {
                                        if l.starts_with('#') || !l.contains("[!a]") {
                                            return format!("{}\n", l);
                                        }
                                        let (neg, body) = match l.strip_prefix('!') {
                                            Some(b) => ("!", b),
                                            None => ("", l),
                                        };
                                        let core = body.trim_end_matches(' ');
                                        let had_sep = core.strip_suffix('/').unwrap_or(core).contains('/');
                                        let nb = body.replace("[!a]", "[!a/]");
                                        if had_sep {
                                            format!("{}{}\n", neg, nb)
                                        } else {
                                            format!("{}**/{}\n", neg, nb)
                                        }
                                    })
                                    .collect()
                            };
                            std::fs::write(repo.root.join(".gitignore"), rw(&c.root)).unwrap_or_else(|_| machinery_error("write .gitignore"));
                            if let Some(n) = &c.nested {
                                std::fs::write(&nested_path, rw(n)).unwrap_or_else(|_| machinery_error("write nested"));
                            }
                            class_cross = repo.walker_files(c.icase) == want;
                        }
                        let _ = has_class(&all);
                        let key = format!("{}{}{}", esc(c.root.as_bytes()), c.nested.as_ref().map_or(String::new(), |n| format!(" + {}/.gitignore {}", c.ndir, esc(n.as_bytes()))), if c.icase { " (icase)" } else { "" });
                        *acc.classes.entry(if class_cross { "class".into() } else { "other".into() }).or_insert(0) += 1;
                        if acc.disc.len() < 300 {
                            acc.disc.push((
                                if class_cross { Some("negated-class-crosses-separator") } else { None },
                                key,
                                json!({"kind":"gitignore","root_gitignore":esc(c.root.as_bytes()),"nested_a_gitignore":c.nested.as_ref().map(|n| esc(n.as_bytes())),"nested_dir":c.ndir,"case_insensitive":c.icase,
                                       "ripgrep_lists_but_git_ignores": extra.iter().take(8).collect::<Vec<_>>(), "git_lists_but_ripgrep_skips": missing.iter().take(8).collect::<Vec<_>>(),
                                       "n_extra": extra.len(), "n_missing": missing.len()}),
                            ));
                        }
                    }
                }
                let mut t = total.lock().unwrap();
                t.cases += acc.cases;
                t.nontrivial += acc.nontrivial;
                t.skipped_degenerate += acc.skipped_degenerate;
                t.disc.extend(acc.disc);
                for (k, v) in acc.classes {
                    *t.classes.entry(k).or_insert(0) += v;
                }
            });
        }
    });
    let total = total.into_inner().unwrap();
    for (f, k, v) in total.disc.iter() {
        verdict.discrepancy(*f, k, v.clone());
    }
    if total.nontrivial == 0 {
        machinery_error("C04: no ignore file ever ignored anything");
    }
    ev.set("evaluations", total.cases);
    ev.set("distinct_nontrivial", total.nontrivial);
    ev.set("exhaustive", true);
    ev.set("ignore_file_contents", ncases);
    ev.set("skipped_degenerate_or_rejected_by_git", total.skipped_degenerate);
    ev.set("tree_files", 156);
    ev.set(
        "rule",
        format!(
            "tree: 156 files (four of them with names ending in a blank or containing a backslash) over names {{ab,a.b,.a,a-b,a*,[a],a?,c,a,b,A,a.}} in directories {{.,a,b,a.,A}} x {{.,a,b}} plus d/{{a,b}}/{{a,b}}/{{a,b}}. Ignore-file contents: every single line that is a token string of length <= {} over {:?}; ordered pairs of lines (length <= 2 each{}); a root line with a nested a/.gitignore line, and with a nested d/.gitignore or d/a/.gitignore line; case-insensitive variants; trailing blanks, escaped blanks, comments; a byte-order mark at the start of the root and the nested file; every ordered pair (with each negation pattern) and ignore / re-include / ignore triples over the 12 lines **/x/y and **/x/y/z with x,y,z in {{a,b}} (several multi-component literal suffixes in one file); every ordered pair (with each negation pattern) over eight rules ending in the same literal extension behind a wildcard; nine `dir/*` rules each followed by nine re-includes of something further down. Oracle: git {} (`git ls-files -o --exclude-standard`) in a scratch repository per shard. Observation: the set of files the real ignore::Walk yields with only .gitignore active (with a nested ignore file: in directory order and with the entries of every directory sorted by name, ascending and descending — what is ignored must not depend on the order of the visit). Lines containing '//' or a backslash before '/' are skipped (no specification). distinct_nontrivial = contents for which git ignores at least one file.",
            tier.pick(4, 5), TOKENS, if tier == Tier::Quick { ", every 2nd line" } else { "" },
            String::from_utf8_lossy(&Command::new("git").arg("--version").output().map(|o| o.stdout).unwrap_or_default()).trim()
        ),
    );
    ev.set("samples", json!([{"root_gitignore": "*\\n!*/\\n!*.b\\n"}, {"root_gitignore": "/a\\n", "nested_a_gitignore": "!b\\n"}]));
    ev.assume("git is the specification of gitignore semantics");
    verdict.finish(ev)
}

fn replay(path: &str) -> ! {
    let text = std::fs::read_to_string(path).unwrap_or_else(|_| machinery_error("cannot read replay"));
    let v: Value = serde_json::from_str(&text).unwrap_or_else(|_| machinery_error("bad replay"));
    let repo = Repo::new();
    let root = unesc(v["root_gitignore"].as_str().unwrap_or(""));
    std::fs::write(repo.root.join(".gitignore"), &root).unwrap();
    if let Some(n) = v["nested_a_gitignore"].as_str() {
        let nd = v["nested_dir"].as_str().unwrap_or("a");
        std::fs::write(repo.root.join(nd).join(".gitignore"), unesc(n)).unwrap();
    }
    let icase = v["case_insensitive"].as_bool().unwrap_or(false);
    let want = repo.git_files(icase).unwrap_or_default();
    let mut got = repo.walker_files(icase);
    for rev in [false, true] {
        let g2 = repo.walker_files_in_order(icase, Some(rev));
        if g2 != want {
            got = g2;
        }
    }
    println!(".gitignore {:?}: ripgrep lists but git ignores: {:?}; git lists but ripgrep skips: {:?}", esc(&root), got.difference(&want).take(10).collect::<Vec<_>>(), want.difference(&got).take(10).collect::<Vec<_>>());
    let _ = Path::new("");
    std::process::exit(if got == want { 0 } else { 1 })
}
