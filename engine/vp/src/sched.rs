//! E3 — stateless exploration of thread schedules of real code (iterative
//! preemption bounding, CHESS style) on top of `ignore::verif`.
//!
//! A node of the search is (choice prefix, injected `Steal::Retry` ordinals).
//! Running a node replays the prefix and takes choice 0 afterwards; its
//! children deviate once more at a later decision: another enabled worker at
//! step i (cost 1 preemption iff the arriving worker was still enabled), or a
//! `Retry` answer at a steal attempt (cost 1 retry).

use ignore::verif::{Abort, Config, Event, Point, Step, Trace};

#[derive(Clone, Debug)]
pub struct Node {
    pub prefix: Vec<usize>,
    pub retry_at: Vec<usize>,
    /// First step index at which a further retry may be injected.
    pub retry_from: usize,
    pub preemptions: usize,
}

impl Node {
    pub fn root() -> Node {
        Node { prefix: vec![], retry_at: vec![], retry_from: 0, preemptions: 0 }
    }
    pub fn config(&self, horizon: usize) -> Config {
        Config { prefix: self.prefix.clone(), retry_at: self.retry_at.clone(), horizon }
    }
}

pub fn steps(trace: &Trace) -> Vec<&Step> {
    trace.steps().collect()
}

/// The children of `node`, given the trace its execution produced.
pub fn children(node: &Node, trace: &Trace, pbound: usize, rbound: usize) -> Vec<Node> {
    let st = steps(trace);
    let choices: Vec<usize> = st.iter().map(|s| s.choice).collect();
    let mut out = vec![];
    // steal ordinal of each step
    let mut ord = 0usize;
    let mut steal_ord = vec![None; st.len()];
    for (i, s) in st.iter().enumerate() {
        if s.point == Point::Steal {
            steal_ord[i] = Some(ord);
            ord += 1;
        }
    }
    for i in 0..st.len() {
        // retry deviation at step i (before the step's own decision)
        if i >= node.prefix.len().max(node.retry_from) && node.retry_at.len() < rbound {
            if let Some(k) = steal_ord[i] {
                if !st[i].retry {
                    let mut r = node.retry_at.clone();
                    r.push(k);
                    out.push(Node {
                        prefix: choices[..i].to_vec(),
                        retry_at: r,
                        retry_from: i + 1,
                        preemptions: node.preemptions,
                    });
                }
            }
        }
        if i >= node.prefix.len() {
            let cost = if st[i].self_enabled { 1 } else { 0 };
            if node.preemptions + cost > pbound {
                continue;
            }
            for alt in 1..st[i].enabled.len() {
                let mut p = choices[..i].to_vec();
                p.push(alt);
                out.push(Node {
                    prefix: p,
                    retry_at: node.retry_at.clone(),
                    retry_from: node.retry_from.max(i + 1),
                    preemptions: node.preemptions + cost,
                });
            }
        }
    }
    out
}

pub fn abort_name(a: Option<Abort>) -> &'static str {
    match a {
        None => "none",
        Some(Abort::Deadlock) => "deadlock",
        Some(Abort::Horizon) => "horizon",
        Some(Abort::Diverged) => "diverged",
        Some(Abort::Panicked) => "panicked",
    }
}

pub fn render(trace: &Trace) -> Vec<String> {
    trace
        .events
        .iter()
        .map(|e| match e {
            Event::Step(s) => format!(
                "{} {} en={:?} ch={}{}{}",
                if s.worker == usize::MAX { "-".to_string() } else { format!("w{}", s.worker) },
                s.point.code(),
                s.enabled,
                s.choice,
                if s.self_enabled { "" } else { " (blocked)" },
                if s.retry { " RETRY" } else { "" }
            ),
            Event::Note { worker, text } => {
                format!("   note {} {}", worker.map_or("-".to_string(), |w| format!("w{}", w)), text)
            }
        })
        .collect()
}
