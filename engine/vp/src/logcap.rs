//! A capturing `log` logger (per thread), used to read what the subject logs
//! at debug level (e.g. globset's strategy census, the searcher's strategy).

use std::cell::RefCell;

thread_local! {
    static BUF: RefCell<Option<Vec<String>>> = const { RefCell::new(None) };
}

struct Cap;

impl log::Log for Cap {
    fn enabled(&self, _: &log::Metadata) -> bool {
        BUF.with(|b| b.borrow().is_some())
    }
    fn log(&self, record: &log::Record) {
        BUF.with(|b| {
            if let Some(v) = b.borrow_mut().as_mut() {
                v.push(format!("{}", record.args()));
            }
        });
    }
    fn flush(&self) {}
}

static CAP: Cap = Cap;

pub fn install() {
    let _ = log::set_logger(&CAP);
    log::set_max_level(log::LevelFilter::Off);
}

/// Start capturing on this thread (raises the global max level).
pub fn start() {
    BUF.with(|b| *b.borrow_mut() = Some(vec![]));
    log::set_max_level(log::LevelFilter::Trace);
}

pub fn stop() -> Vec<String> {
    log::set_max_level(log::LevelFilter::Off);
    BUF.with(|b| b.borrow_mut().take().unwrap_or_default())
}
