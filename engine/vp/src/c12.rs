//! C12 — a glob set answers like its member globs; globs mean what is
//! documented. Bounded exhaustive enumeration (E1) of globs x options x paths.

use std::collections::BTreeMap;

use globset::{Candidate, GlobBuilder, GlobSet, GlobSetBuilder};
use serde_json::json;

use crate::core::*;

const GLOB_TOKENS: &[&str] =
    &["a", "b", ".", "/", "*", "**", "?", "[ab]", "[!a]", "{a,b}", "{a,}", "\\*", "A", "{a,/**}", "{/**,a}", "{**/a,b}", "{b,**/a}"];
const PATH_BYTES: &[u8] = b"ab./-A";

// ---------------------------------------------------------------------------
// Reference glob matcher, written from the documented syntax.

#[derive(Clone, Debug)]
enum Tok {
    Lit(u8),
    Any,
    Star,
    Class { neg: bool, ranges: Vec<(u8, u8)> },
    Alt(Vec<Vec<Tok>>),
    /// `**/` at the start: the empty string or anything ending in `/`.
    RecPrefix,
    /// `/**` at the end: `/` followed by anything.
    RecSuffix,
    /// `/**/`: anything that starts and ends with `/` (including `/`).
    RecInner,
    /// the glob `**` (or `**/**`): everything.
    Everything,
}

#[derive(Clone, Copy, Debug, PartialEq, Eq, Hash, PartialOrd, Ord)]
pub struct Opts {
    pub case_insensitive: bool,
    pub literal_separator: bool,
    pub backslash_escape: bool,
    pub empty_alternates: bool,
}

impl Opts {
    pub fn from_index(i: usize) -> Opts {
        Opts {
            case_insensitive: i & 1 != 0,
            literal_separator: i & 2 != 0,
            backslash_escape: i & 4 != 0,
            empty_alternates: i & 8 != 0,
        }
    }
    fn builder<'a>(&self, glob: &'a str) -> GlobBuilder<'a> {
        let mut b = GlobBuilder::new(glob);
        b.case_insensitive(self.case_insensitive)
            .literal_separator(self.literal_separator)
            .backslash_escape(self.backslash_escape)
            .empty_alternates(self.empty_alternates);
        b
    }
}

struct RefParser<'a> {
    s: &'a [u8],
    i: usize,
    opts: Opts,
    impl_model: bool,
}

impl<'a> RefParser<'a> {
    /// Parse a sequence until end of input or (inside alternates) `,` / `}`.
    fn seq(&mut self, in_alt: bool) -> Result<Vec<Tok>, ()> {
        let mut out: Vec<Tok> = vec![];
        let start = self.i;
        while self.i < self.s.len() {
            let c = self.s[self.i];
            match c {
                b',' if in_alt => break,
                b'}' if in_alt => break,
                b'}' => return Err(()),
                b'{' => {
                    if in_alt {
                        return Err(());
                    }
                    self.i += 1;
                    let mut branches = vec![];
                    loop {
                        branches.push(self.seq(true)?);
                        match self.s.get(self.i) {
                            Some(b',') => self.i += 1,
                            Some(b'}') => {
                                self.i += 1;
                                break;
                            }
                            _ => return Err(()),
                        }
                    }
                    out.push(Tok::Alt(branches));
                }
                b'?' => {
                    out.push(Tok::Any);
                    self.i += 1;
                }
                b'[' => {
                    self.i += 1;
                    out.push(self.class()?);
                }
                b'\\' => {
                    if self.opts.backslash_escape {
                        match self.s.get(self.i + 1) {
                            None => return Err(()),
                            Some(&c) => out.push(Tok::Lit(c)),
                        }
                        self.i += 2;
                    } else {
                        out.push(Tok::Lit(b'\\'));
                        self.i += 1;
                    }
                }
                b'*' => {
                    let run_start = self.i;
                    while self.s.get(self.i) == Some(&b'*') {
                        self.i += 1;
                    }
                    let k = self.i - run_start;
                    if self.impl_model && k == 2 {
                        self.model_double_star(run_start, in_alt, &mut out);
                        continue;
                    }
                    let at_start = run_start == start;
                    let left_sep = run_start > start && self.s[run_start - 1] == b'/';
                    let next = self.s.get(self.i).copied();
                    let at_end = match next {
                        None => true,
                        Some(b',') | Some(b'}') if in_alt => true,
                        _ => false,
                    };
                    let right_sep = next == Some(b'/');
                    if k == 2 && (at_start || left_sep) && (at_end || right_sep) {
                        if right_sep {
                            self.i += 1; // the recursive token owns the separator
                        }
                        // What came before decides the form.
                        let prev = if at_start { None } else { out.pop() };
                        match prev {
                            None => out.push(if right_sep { Tok::RecPrefix } else { Tok::Everything }),
                            Some(Tok::Lit(b'/')) => {
                                out.push(if right_sep { Tok::RecInner } else { Tok::RecSuffix })
                            }
                            Some(Tok::RecPrefix) => {
                                out.push(if right_sep { Tok::RecPrefix } else { Tok::Everything })
                            }
                            Some(Tok::RecInner) => {
                                out.push(if right_sep { Tok::RecInner } else { Tok::RecSuffix })
                            }
                            Some(other) => {
                                // cannot happen: left_sep means the previous
                                // token owns a '/'.
                                out.push(other);
                                out.push(Tok::Star);
                            }
                        }
                    } else {
                        out.push(Tok::Star);
                    }
                }
                c => {
                    out.push(Tok::Lit(c));
                    self.i += 1;
                }
            }
        }
        Ok(out)
    }

    /// The implementation's own rule for `**` (the counterfactual of known
    /// finding `recursive-wildcard-next-to-alternates-differs-from-inlining`):
    /// only the tokens of the CURRENT branch and the characters right next to
    /// the stars are looked at, so what stands on the other side of a `{`,
    /// `,` or `}` is not seen.
    fn model_double_star(&mut self, run_start: usize, in_alt: bool, out: &mut Vec<Tok>) {
        let next = self.s.get(self.i).copied();
        if out.is_empty() {
            if next.is_none() || next == Some(b'/') {
                if next.is_some() {
                    self.i += 1;
                }
                out.push(Tok::RecPrefix);
            } else {
                out.push(Tok::Star);
                out.push(Tok::Star);
            }
            return;
        }
        if self.s[run_start - 1] != b'/' {
            out.push(Tok::Star);
            out.push(Tok::Star);
            return;
        }
        let is_suffix = match next {
            None => true,
            Some(b',') | Some(b'}') if in_alt => true,
            Some(b'/') => {
                self.i += 1;
                false
            }
            _ => {
                out.push(Tok::Star);
                out.push(Tok::Star);
                return;
            }
        };
        match out.pop() {
            Some(Tok::RecPrefix) => out.push(Tok::RecPrefix),
            Some(Tok::RecSuffix) => out.push(Tok::RecSuffix),
            _ => out.push(if is_suffix { Tok::RecSuffix } else { Tok::RecInner }),
        }
    }

    fn class(&mut self) -> Result<Tok, ()> {
        let mut neg = false;
        if let Some(&c) = self.s.get(self.i) {
            if c == b'!' || c == b'^' {
                neg = true;
                self.i += 1;
            }
        }
        let mut items: Vec<u8> = vec![];
        let mut first = true;
        loop {
            let Some(&c) = self.s.get(self.i) else { return Err(()) };
            self.i += 1;
            if c == b']' && !first {
                break;
            }
            items.push(c);
            first = false;
        }
        // items: literal members with `x-y` ranges; a `-` first or last is literal.
        let mut ranges = vec![];
        let mut j = 0;
        while j < items.len() {
            if j + 2 < items.len() + 0 && items[j + 1] == b'-' && j + 2 < items.len() {
                let (lo, hi) = (items[j], items[j + 2]);
                if hi < lo {
                    return Err(());
                }
                ranges.push((lo, hi));
                j += 3;
            } else {
                ranges.push((items[j], items[j]));
                j += 1;
            }
        }
        Ok(Tok::Class { neg, ranges })
    }
}

/// The brace-free globs obtained by putting each branch of the glob's single
/// (unescaped, outside any class) group in the group's place; `None` if the
/// glob has no such group or more than one.
fn inline_group(g: &str, o: Opts) -> Option<Vec<String>> {
    let s = g.as_bytes();
    let (mut i, mut open, mut close) = (0, None, None);
    let mut commas = vec![];
    while i < s.len() {
        match s[i] {
            b'\\' if o.backslash_escape => i += 1,
            b'[' => {
                // skip the class (a `]` right after the opening or the negation is literal)
                i += 1;
                if matches!(s.get(i), Some(b'!') | Some(b'^')) {
                    i += 1;
                }
                i += 1;
                while i < s.len() && s[i] != b']' {
                    i += 1;
                }
            }
            b'{' => {
                if open.is_some() {
                    return None;
                }
                open = Some(i);
            }
            b'}' => {
                if open.is_none() || close.is_some() {
                    return None;
                }
                close = Some(i);
            }
            b',' if open.is_some() && close.is_none() => commas.push(i),
            _ => {}
        }
        i += 1;
    }
    let (open, close) = (open?, close?);
    let mut cuts = vec![open];
    cuts.extend(commas);
    cuts.push(close);
    let mut branches: Vec<&str> = cuts.windows(2).map(|w| &g[w[0] + 1..w[1]]).collect();
    if !o.empty_alternates {
        branches.retain(|b| !b.is_empty());
        if branches.is_empty() {
            branches.push("");
        }
    }
    Some(branches.iter().map(|b| format!("{}{}{}", &g[..open], b, &g[close + 1..])).collect())
}

pub struct RefGlob {
    /// Alternate-free expansions.
    seqs: Vec<Vec<Tok>>,
    opts: Opts,
}

/// `lone_prefix_is_everything` is the counterfactual switch of known finding
/// `lone-recursive-prefix-matches-everything`: the glob `**/` is treated
/// exactly like `**`.
pub fn ref_parse(glob: &str, opts: Opts, lone_prefix_is_everything: bool) -> Result<RefGlob, ()> {
    ref_parse_with(glob, opts, lone_prefix_is_everything, false)
}

fn ref_parse_with(glob: &str, opts: Opts, lone_prefix_is_everything: bool, impl_model: bool) -> Result<RefGlob, ()> {
    let mut p = RefParser { s: glob.as_bytes(), i: 0, opts, impl_model };
    let mut toks = p.seq(false)?;
    if lone_prefix_is_everything && toks.len() == 1 && matches!(toks[0], Tok::RecPrefix) {
        toks[0] = Tok::Everything;
    }
    if p.i != glob.len() {
        return Err(());
    }
    // Expand one level of alternates.
    let mut seqs: Vec<Vec<Tok>> = vec![vec![]];
    for t in toks {
        match t {
            Tok::Alt(branches) => {
                let mut bs: Vec<Vec<Tok>> = branches
                    .into_iter()
                    .filter(|b| !b.is_empty() || opts.empty_alternates)
                    .collect();
                if bs.is_empty() {
                    bs.push(vec![]);
                }
                let mut next = vec![];
                for s in seqs.iter() {
                    for b in bs.iter() {
                        let mut n = s.clone();
                        n.extend(b.iter().cloned());
                        next.push(n);
                    }
                }
                seqs = next;
            }
            t => {
                for s in seqs.iter_mut() {
                    s.push(t.clone());
                }
            }
        }
    }
    Ok(RefGlob { seqs, opts })
}

fn fold_eq(a: u8, b: u8, ci: bool) -> bool {
    a == b || (ci && a.to_ascii_lowercase() == b.to_ascii_lowercase())
}

fn in_ranges(ranges: &[(u8, u8)], c: u8, ci: bool) -> bool {
    let hit = |x: u8| ranges.iter().any(|&(lo, hi)| lo <= x && x <= hi);
    hit(c) || (ci && (hit(c.to_ascii_lowercase()) || hit(c.to_ascii_uppercase())))
}

fn ref_match_seq(toks: &[Tok], p: &[u8], o: &Opts) -> bool {
    let Some((t, rest)) = toks.split_first() else { return p.is_empty() };
    match t {
        Tok::Lit(c) => !p.is_empty() && fold_eq(*c, p[0], o.case_insensitive) && ref_match_seq(rest, &p[1..], o),
        Tok::Any => {
            !p.is_empty() && !(o.literal_separator && p[0] == b'/') && ref_match_seq(rest, &p[1..], o)
        }
        Tok::Class { neg, ranges } => {
            !p.is_empty()
                && (in_ranges(ranges, p[0], o.case_insensitive) != *neg)
                && ref_match_seq(rest, &p[1..], o)
        }
        Tok::Star => {
            for k in 0..=p.len() {
                if k > 0 && o.literal_separator && p[k - 1] == b'/' {
                    break;
                }
                if ref_match_seq(rest, &p[k..], o) {
                    return true;
                }
            }
            false
        }
        Tok::Everything => (0..=p.len()).any(|k| ref_match_seq(rest, &p[k..], o)),
        Tok::RecPrefix => {
            (0..=p.len()).any(|k| (k == 0 || p[k - 1] == b'/') && ref_match_seq(rest, &p[k..], o))
        }
        Tok::RecSuffix => !p.is_empty() && p[0] == b'/' && (1..=p.len()).any(|k| ref_match_seq(rest, &p[k..], o)),
        Tok::RecInner => {
            !p.is_empty()
                && p[0] == b'/'
                && (1..=p.len()).any(|k| p[k - 1] == b'/' && ref_match_seq(rest, &p[k..], o))
        }
        Tok::Alt(_) => unreachable!(),
    }
}

impl RefGlob {
    pub fn is_match(&self, path: &[u8]) -> bool {
        self.seqs.iter().any(|s| ref_match_seq(s, path, &self.opts))
    }
}

// ---------------------------------------------------------------------------

fn all_globs(maxlen: usize) -> Vec<String> {
    let mut out = vec![];
    let n = seq_count(GLOB_TOKENS.len(), maxlen);
    let mut idx = vec![];
    for i in 0..n {
        seq_decode(GLOB_TOKENS.len(), i, &mut idx);
        out.push(idx.iter().map(|&t| GLOB_TOKENS[t]).collect::<String>());
    }
    out
}

fn all_paths(maxlen: usize, with_bytes: bool) -> Vec<Vec<u8>> {
    let mut out = vec![];
    let n = seq_count(PATH_BYTES.len(), maxlen);
    let mut idx = vec![];
    for i in 0..n {
        seq_decode(PATH_BYTES.len(), i, &mut idx);
        out.push(idx.iter().map(|&t| PATH_BYTES[t]).collect::<Vec<u8>>());
    }
    if with_bytes {
        // Non-UTF-8 byte paths built from the same shapes: '-' replaced by 0xFF.
        let extra: Vec<Vec<u8>> = out
            .iter()
            .filter(|p| p.contains(&b'-'))
            .map(|p| p.iter().map(|&b| if b == b'-' { 0xFF } else { b }).collect())
            .collect();
        out.extend(extra);
    }
    out
}

fn os(path: &[u8]) -> &std::ffi::OsStr {
    use std::os::unix::ffi::OsStrExt;
    std::ffi::OsStr::from_bytes(path)
}

#[derive(Default)]
struct Acc {
    single_evals: u64,
    single_matches: u64,
    ref_errors_agree: u64,
    set_evals: u64,
    set_nonempty: u64,
    /// (glob, opts, path, impl, reference, explained by the known finding)
    disc_single: Vec<(String, usize, Vec<u8>, bool, bool, bool)>,
    /// (set name, path, set answer, members' answer)
    disc_set: Vec<(usize, Vec<u8>, Vec<usize>, Vec<usize>)>,
    build_mismatch: Vec<(String, usize, bool, bool)>,
    rows: Vec<(usize, Vec<u64>)>,
}

fn bit(row: &[u64], j: usize) -> bool {
    row[j / 64] >> (j % 64) & 1 == 1
}

/// The answers of one glob's own matcher on every path, as a bit row.
fn row_of(glob: &str, oi: usize, paths: &[Vec<u8>]) -> Option<Vec<u64>> {
    let m = Opts::from_index(oi).builder(glob).build().ok()?.compile_matcher();
    let mut row = vec![0u64; (paths.len() + 63) / 64];
    for (j, p) in paths.iter().enumerate() {
        if m.is_match(os(p)) {
            row[j / 64] |= 1 << (j % 64);
        }
    }
    Some(row)
}

pub fn run(args: &Args) -> ! {
    if let Some(r) = &args.replay {
        replay(r);
    }
    let tier = args.tier;
    let mut ev = Evidence::new(args, "exploration");
    let mut verdict = Verdict::new("C12");

    // ---- layer 2: every glob's own matcher vs the reference -----------------
    // The same pass records, per (glob, options), the matcher's answer on every
    // path (a bit row); layer 1 compares glob sets against those rows.
    let glen = 3;
    let plen = tier.pick(5, 6);
    let globs = all_globs(glen);
    let paths = all_paths(plen, true);
    let nopts = 16usize;
    let mut acc_total = Acc::default();
    let work = globs.len() * nopts;
    let mut matrix: Vec<Option<Vec<u64>>> = vec![None; work];
    par_fold(
        work,
        8,
        Acc::default,
        |acc, w| {
            let g = &globs[w / nopts];
            let oi = w % nopts;
            let o = Opts::from_index(oi);
            let imp = o.builder(g).build();
            let rf = ref_parse(g, o, false);
            let rf_f = ref_parse(g, o, true);
            match (&imp, &rf) {
                (Ok(_), Ok(_)) => {}
                (Err(_), Err(_)) => {
                    acc.ref_errors_agree += 1;
                    return;
                }
                _ => {
                    acc.build_mismatch.push((g.clone(), oi, imp.is_ok(), rf.is_ok()));
                    return;
                }
            }
            let m = imp.unwrap().compile_matcher();
            let rf = rf.unwrap();
            let rf_f = rf_f.unwrap();
            let mut per_glob = 0;
            let mut row = vec![0u64; (paths.len() + 63) / 64];
            for (j, p) in paths.iter().enumerate() {
                let a = m.is_match(os(p));
                let b = rf.is_match(p);
                acc.single_evals += 1;
                if a {
                    acc.single_matches += 1;
                    row[j / 64] |= 1 << (j % 64);
                }
                if a != b && per_glob < 2 && acc.disc_single.len() < 500 {
                    per_glob += 1;
                    let finding = rf_f.is_match(p) == a;
                    acc.disc_single.push((g.clone(), oi, p.clone(), a, b, finding));
                }
            }
            acc.rows.push((w, row));
        },
        |a| {
            acc_total.single_evals += a.single_evals;
            acc_total.single_matches += a.single_matches;
            acc_total.ref_errors_agree += a.ref_errors_agree;
            acc_total.disc_single.extend(a.disc_single);
            acc_total.build_mismatch.extend(a.build_mismatch);
            for (w, row) in a.rows {
                matrix[w] = Some(row);
            }
        },
    );
    for (g, oi, imp_ok, ref_ok) in acc_total.build_mismatch.iter() {
        verdict.discrepancy(
            None,
            &format!("build:{}:{}", g, oi),
            json!({"kind":"glob-accepted-vs-reference","glob":g,"opts":oi,"impl_ok":imp_ok,"ref_ok":ref_ok}),
        );
    }
    for (g, oi, p, a, b, finding) in acc_total.disc_single.iter() {
        verdict.discrepancy(
            if *finding { Some("lone-recursive-prefix-matches-everything") } else { None },
            &format!("single:{}:{}:{}", g, oi, esc(p)),
            json!({"kind":"single-vs-reference","glob":g,"opts":oi,"path":esc(p),"impl":a,"reference":b}),
        );
    }
    // brace family: balanced, unbalanced, empty and escaped alternates — is the
    // glob accepted at all, and what does it match (paths with the
    // metacharacters themselves)
    {
        let specials = [
            "a}", "}a", "}", "{a", "a{", "{", "{a,b", "a,b", ",", "{}", "{a}", "a{}b", "{,}", "{a,b}}", "{{a,b}", "{{a,b},b}", "\\{a", "a\\}", "[{]a", "a[}]", "{a\\,b}", "{a,b}{a,b}", "}{", "a}b{",
        ];
        let spaths: Vec<&[u8]> = vec![b"a", b"b", b"", b"a}", b"}a", b"}", b"{a", b"a{", b"{", b"a,b", b",", b"{}", b"{a}", b"ab", b"aa", b"bb", b"ba", b"a,", b"{a,b}", b"a}b{", b"}{", b"a\\"];
        for g in specials {
            let g = g.replace("\\\\", "\\");
            for oi in 0..nopts {
                let o = Opts::from_index(oi);
                let imp = o.builder(&g).build();
                let rf = ref_parse(&g, o, false);
                acc_total.single_evals += 1;
                match (&imp, &rf) {
                    (Err(_), Err(_)) => acc_total.ref_errors_agree += 1,
                    (Ok(gl), Ok(rf)) => {
                        let m = gl.compile_matcher();
                        for p in spaths.iter() {
                            let (a, b) = (m.is_match(os(p)), rf.is_match(p));
                            acc_total.single_evals += 1;
                            if a != b {
                                verdict.discrepancy(
                                    None,
                                    &format!("single:{}:{}:{}", g, oi, esc(p)),
                                    json!({"kind":"single-vs-reference","glob":g,"opts":oi,"path":esc(p),"impl":a,"reference":b}),
                                );
                            }
                        }
                    }
                    _ => verdict.discrepancy(
                        None,
                        &format!("build:{}:{}", g, oi),
                        json!({"kind":"glob-accepted-vs-reference","glob":g,"opts":oi,"impl_ok":imp.is_ok(),"ref_ok":rf.is_ok()}),
                    ),
                }
            }
        }
    }
    // class family: ranges, a '-' first / last / directly after a range (a
    // literal there, as in fnmatch and git), negation; against every
    // one-character path over printable ASCII and a few longer ones
    {
        let specials = [
            "[a-b-z]", "[a-b-A]", "[!a-b-z]", "[a-b-]", "[a-b--z]", "[a-c-e]", "[0-9-a]", "[a-]", "[-a]", "[--a]", "[a--]", "[+--]", "[!-a]", "[]-a]", "[a-b-c-d]", "[b-a]",
            "x[a-b-z]", "[a-b-z]x", "[a-bA-B-]",
        ];
        let mut spaths: Vec<Vec<u8>> = (0x20u8..0x7f).map(|b| vec![b]).collect();
        for b in [b'a', b'c', b'-', b'z', b'A'] {
            spaths.push(vec![b'x', b]);
            spaths.push(vec![b, b'x']);
        }
        for g in specials {
            for oi in 0..nopts {
                let o = Opts::from_index(oi);
                let imp = o.builder(g).build();
                let rf = ref_parse(g, o, false);
                acc_total.single_evals += 1;
                match (&imp, &rf) {
                    (Err(_), Err(_)) => acc_total.ref_errors_agree += 1,
                    (Ok(gl), Ok(rf)) => {
                        let m = gl.compile_matcher();
                        let mut per = 0;
                        for p in spaths.iter() {
                            let (a, b) = (m.is_match(os(p)), rf.is_match(p));
                            acc_total.single_evals += 1;
                            if a != b && per < 3 {
                                per += 1;
                                verdict.discrepancy(
                                    None,
                                    &format!("single:{}:{}:{}", g, oi, esc(p)),
                                    json!({"kind":"single-vs-reference","glob":g,"opts":oi,"path":esc(p),"impl":a,"reference":b}),
                                );
                            }
                        }
                    }
                    _ => verdict.discrepancy(
                        None,
                        &format!("build:{}:{}", g, oi),
                        json!({"kind":"glob-accepted-vs-reference","glob":g,"opts":oi,"impl_ok":imp.is_ok(),"ref_ok":rf.is_ok()}),
                    ),
                }
            }
        }
    }
    // alternates x recursive wildcard family: `{a,b}` matches what `a` or `b`
    // matches in its place, so a glob with one group must match exactly what
    // its textual inlinings (brace-free globs) match
    let mut inl_known = 0u64;
    {
        let specials = [
            "a{**/b,c}", "a/{**/b,c}", "{a,**/b}", "{**/a,b}/c", "a{/**,b}", "{a/**,b}c", "{a,b/**}/c", "{a\\,**,b}", "{a\\{**,b}", "{a,**}", "{**,a}", "a/{**,b}",
            "{a,b}/**", "**/{a,b}", "{a/,b}**", "{a/,b}**/c", "a/**{/b,c}", "{a,b}**", "**{a,b}", "a{,/**}", "{a/**/b,c}", "{**/a/**,b}",
        ];
        let al = [b'a', b'b', b'c', b'/', b','];
        let maxlen = tier.pick(4, 6);
        let mut spaths: Vec<Vec<u8>> = vec![];
        let mut idx = vec![];
        for i in 0..seq_count(al.len(), maxlen) {
            seq_decode(al.len(), i, &mut idx);
            spaths.push(idx.iter().map(|&k| al[k]).collect());
        }
        spaths.push(b"a{b".to_vec());
        spaths.push(b"a{".to_vec());
        for g in specials {
            let g = g.replace("\\\\", "\\");
            for oi in 0..nopts {
                let o = Opts::from_index(oi);
                let Some(inlined) = inline_group(&g, o) else { continue };
                let imp = o.builder(&g).build();
                let refs: Vec<Result<RefGlob, ()>> = inlined.iter().map(|t| ref_parse(t, o, true)).collect();
                let mirror = ref_parse_with(&g, o, true, true);
                acc_total.single_evals += 1;
                let ref_ok = refs.iter().all(|r| r.is_ok());
                if imp.is_ok() != ref_ok {
                    verdict.discrepancy(None, &format!("build:{}:{}", g, oi), json!({"kind":"glob-accepted-vs-inlining","glob":g,"opts":oi,"impl_ok":imp.is_ok(),"inlined":inlined}));
                    continue;
                }
                let Ok(gl) = imp else { continue };
                let m = gl.compile_matcher();
                let mut per = 0;
                for p in spaths.iter() {
                    let a = m.is_match(os(p));
                    let b = refs.iter().any(|r| r.as_ref().unwrap().is_match(p));
                    acc_total.single_evals += 1;
                    if a != b {
                        let mirrored = mirror.as_ref().map_or(false, |r| r.is_match(p) == a);
                        if mirrored {
                            inl_known += 1;
                            if inl_known > 6 {
                                continue;
                            }
                        } else {
                            per += 1;
                            if per > 3 {
                                continue;
                            }
                        }
                        verdict.discrepancy(
                            if mirrored { Some("recursive-wildcard-next-to-alternates-differs-from-inlining") } else { None },
                            &format!("inlining:{}:{}:{}", g, oi, esc(p)),
                            json!({"kind":"single-vs-inlining","glob":g,"opts":oi,"path":esc(p),"impl":a,"inlined_globs":inlined,"any_inlined_glob_matches":b}),
                        );
                    }
                }
            }
        }
    }
    ev.set("alternates_inlining_family_known_cases", inl_known);
    eprintln!("[c12] layer 2 done at {:.1}s", ev.elapsed());

    // ---- layer 1: set vs members --------------------------------------------
    // Sets: (a) every glob alone; (b) one set per option set holding every
    // glob; (c) one set mixing all option sets; (d) all ordered pairs (and, on
    // the thorough tier, all triples) over a pool with several representatives
    // per strategy. A member is (glob text, options index, row id).
    let pool: Vec<(&str, usize)> = vec![
        ("a.b", 0), ("a/b", 2), ("A", 1), ("**/a", 0), ("**/a.b", 2), ("**/.", 0), ("*.a", 0), ("*.", 0),
        ("**/*.b", 2), ("a*", 0), ("a/*", 0), ("a.*", 0), ("*a", 0), ("*/a", 0), ("**/a", 2), ("*.a*", 0),
        ("a*.b", 0), ("*a.", 0), ("[ab]", 0), ("a?b", 2), ("{a,b}.a", 0), ("**", 0), ("*", 2), ("a/**", 0),
        ("a/**/b", 2), ("?", 0), (".", 0), ("a.", 0), ("*.A", 1), ("b/a.", 0),
        // a leading separator in front of the recursive wildcard: the path has
        // to start with one
        ("/**/b", 0), ("/**/a.b", 2), ("/**/a/b", 0), ("/**", 0),
    ];
    // A second pool: per multi-literal strategy (prefix, suffix, required
    // extension, basename literal) a family of globs whose literals nest and
    // overlap inside one another; all ordered pairs within the pool.
    let pool2: Vec<(&str, usize)> = vec![
        ("a*", 0), ("b*", 0), ("ab*", 0), ("ba*", 0), ("bab*", 0), ("aba*", 0), ("abb*", 0), ("a/*", 0),
        ("a/**", 2), ("b/**", 2), ("ab/**", 2), ("b/a/**", 2), ("ab/a/**", 2), ("a/b/**", 2),
        ("*a", 0), ("*ba", 0), ("*aba", 0), ("*/a", 0), ("*b/a", 0), ("**/a/b", 2), ("**/b/a/b", 2), ("**/b", 2), ("**/a/a/b", 2),
        ("*.a", 0), ("*.b.a", 0), ("*a.a", 0), ("a*.a", 0), ("**/*.a", 2), ("**/a.a", 2), ("**/.a", 2),
    ];
    let mut rows: Vec<Vec<u64>> = vec![];
    let mut row_id_of_matrix: Vec<Option<usize>> = vec![None; work];
    for (w, r) in matrix.into_iter().enumerate() {
        if let Some(r) = r {
            row_id_of_matrix[w] = Some(rows.len());
            rows.push(r);
        }
    }
    let mut pool_rows = vec![];
    for (g, oi) in pool.iter() {
        let r = row_of(g, *oi, &paths).unwrap_or_else(|| machinery_error("C12: a pool glob does not build"));
        pool_rows.push(rows.len());
        rows.push(r);
    }
    let mut pool2_rows = vec![];
    for (g, oi) in pool2.iter() {
        let r = row_of(g, *oi, &paths).unwrap_or_else(|| machinery_error("C12: a pool glob does not build"));
        pool2_rows.push(rows.len());
        rows.push(r);
    }
    type Member = (String, usize, usize);
    let mut sets: Vec<(String, Vec<Member>)> = vec![];
    let big_opts: Vec<usize> = match tier {
        Tier::Quick => vec![0, 2, 5, 10, 15],
        Tier::Thorough => (0..nopts).collect(),
    };
    for &oi in big_opts.iter() {
        // (quick tier: the all-glob sets hold the globs of length <= 2; every
        // longer glob is still covered alone and in the pool pairs)
        let upto = match tier {
            Tier::Quick => seq_count(GLOB_TOKENS.len(), 2),
            Tier::Thorough => globs.len(),
        };
        let members: Vec<Member> = (0..upto)
            .filter_map(|gi| row_id_of_matrix[gi * nopts + oi].map(|r| (globs[gi].clone(), oi, r)))
            .collect();
        sets.push((format!("all-globs/opts{}", oi), members));
    }
    {
        let n2 = seq_count(GLOB_TOKENS.len(), 2);
        let mut members = vec![];
        for gi in 0..n2 {
            for oi in 0..nopts {
                if let Some(r) = row_id_of_matrix[gi * nopts + oi] {
                    members.push((globs[gi].clone(), oi, r));
                }
            }
        }
        sets.push(("all-globs-len2/all-opts-mixed".to_string(), members));
    }
    let pm = |i: usize| -> Member { (pool[i].0.to_string(), pool[i].1, pool_rows[i]) };
    for i in 0..pool.len() {
        for j in 0..pool.len() {
            sets.push((format!("pair/{}/{}", i, j), vec![pm(i), pm(j)]));
        }
    }
    for i in 0..pool2.len() {
        for j in 0..pool2.len() {
            if i != j {
                sets.push((
                    format!("family-pair/{}/{}", pool2[i].0, pool2[j].0),
                    vec![(pool2[i].0.to_string(), pool2[i].1, pool2_rows[i]), (pool2[j].0.to_string(), pool2[j].1, pool2_rows[j])],
                ));
            }
        }
    }
    if tier == Tier::Thorough {
        for i in 0..pool.len() {
            for j in (i + 1)..pool.len() {
                for k in (j + 1)..pool.len() {
                    sets.push((format!("triple/{}/{}/{}", i, j, k), vec![pm(i), pm(j), pm(k)]));
                }
            }
        }
    }
    for gi in 0..globs.len() {
        for oi in 0..nopts {
            if let Some(r) = row_id_of_matrix[gi * nopts + oi] {
                sets.push((format!("single/{}/{}", globs[gi], oi), vec![(globs[gi].clone(), oi, r)]));
            }
        }
    }
    let nsets = sets.len();
    eprintln!("[c12] {} sets prepared at {:.1}s", nsets, ev.elapsed());
    // Work items: (set index, path range); big sets are split over path chunks.
    // (A set of ~2000 globs costs about a millisecond per path, so the quick
    // tier evaluates the big sets and the 38 000 one-glob sets on the paths of length <= 4 only; the path
    // list is ordered shortest first.)
    let big_limit = match tier {
        Tier::Quick => seq_count(PATH_BYTES.len(), 4),
        Tier::Thorough => paths.len(),
    };
    let mut items: Vec<(usize, usize, usize)> = vec![];
    for (si, (_, members)) in sets.iter().enumerate() {
        if members.len() > 3 {
            // one work item per big set: instantiating its regex set costs
            // about a gigabyte of matcher cache, so it is built exactly once
            items.push((si, 0, big_limit));
        } else if members.len() == 1 {
            items.push((si, 0, big_limit));
        } else {
            items.push((si, 0, paths.len()));
        }
    }
    let mut set_acc = Acc::default();
    let nbig = items.iter().filter(|(si, _, _)| sets[*si].1.len() > 3).count();
    // Phase A: the big sets, at most 5 at a time (memory); phase B: the rest.
    let phases: [(usize, usize, usize); 2] = [(5, 0, nbig), (ncpu(), nbig, items.len())];
    for (threads, from, to) in phases {
    par_fold_n(
        threads,
        to - from,
        1,
        Acc::default,
        |acc, ii| {
            let (si, lo, hi) = items[from + ii];
            let (_, members) = &sets[si];
            let mut b = GlobSetBuilder::new();
            for (g, oi, _) in members.iter() {
                b.add(Opts::from_index(*oi).builder(g).build().unwrap());
            }
            let set: GlobSet = match b.build() {
                Ok(s) => s,
                Err(_) => {
                    if lo == 0 {
                        acc.disc_set.push((si, b"(set build failed)".to_vec(), vec![], vec![]));
                    }
                    return;
                }
            };
            let big = members.len() > 3;
            let empty_set = globset::GlobSet::empty();
            let mut into = vec![];
            let mut want = vec![];
            let mut per_set = 0;
            for j in lo..hi {
                let p = &paths[j];
                let cand = Candidate::new(os(p));
                let got = set.matches_candidate(&cand);
                want.clear();
                for (mi, (_, _, r)) in members.iter().enumerate() {
                    if bit(&rows[*r], j) {
                        want.push(mi);
                    }
                }
                acc.set_evals += 1;
                if !want.is_empty() {
                    acc.set_nonempty += 1;
                }
                set.matches_into(os(p), &mut into);
                let ism = set.is_match(os(p));
                // the documented contract of matches_into: the buffer is cleared
                // first, also by a set without globs
                let mut reused = into.clone();
                empty_set.matches_into(os(p), &mut reused);
                let mut reused2 = into.clone();
                empty_set.matches_candidate_into(&cand, &mut reused2);
                let ok = got == want && into == want && ism == !want.is_empty() && reused.is_empty() && reused2.is_empty() && !empty_set.is_match(os(p));
                if !ok && per_set < 3 && acc.disc_set.len() < 500 {
                    per_set += 1;
                    let (g, w): (Vec<usize>, Vec<usize>) = if big {
                        // report only the differing indices
                        (
                            got.iter().copied().filter(|i| !want.contains(i)).collect(),
                            want.iter().copied().filter(|i| !got.contains(i)).collect(),
                        )
                    } else {
                        (got.clone(), want.clone())
                    };
                    acc.disc_set.push((si, p.clone(), g, w));
                }
            }
        },
        |a| {
            set_acc.set_evals += a.set_evals;
            set_acc.set_nonempty += a.set_nonempty;
            set_acc.disc_set.extend(a.disc_set);
        },
    );
    }
    eprintln!("[c12] layer 1 done at {:.1}s", ev.elapsed());
    for (si, p, got, want) in set_acc.disc_set.iter() {
        let (name, members) = &sets[*si];
        let small = members.len() <= 3;
        let ms: Vec<(String, usize)> = members.iter().map(|(g, o, _)| (g.clone(), *o)).collect();
        verdict.discrepancy(
            None,
            &format!("set{}:{}:{}", if small { 0 } else { 9 }, name, esc(p)),
            json!({
                "kind":"set-vs-members","set":name,
                "members": if small { json!(ms) } else { json!(format!("{} globs", ms.len())) },
                "path":esc(p),
                "set_answer_or_extra":got,"members_answer_or_missing":want,
            }),
        );
    }

    // Non-vacuity: which strategies were populated by the enumerated globs.
    let mut strategy_hits: BTreeMap<String, u64> = BTreeMap::new();
    for g in globs.iter() {
        for oi in [0usize, 2] {
            if let Ok(glob) = Opts::from_index(oi).builder(g).build() {
                let k = strategy_of(&glob);
                *strategy_hits.entry(k).or_insert(0) += 1;
            }
        }
    }
    for (g, oi) in pool.iter() {
        let glob = Opts::from_index(*oi).builder(g).build().unwrap();
        *strategy_hits.entry(strategy_of(&glob)).or_insert(0) += 1;
    }
    if strategy_hits.len() < 7 || strategy_hits.contains_key("unknown") {
        machinery_error("C12: not all seven glob-set strategies were populated");
    }

    let evals = acc_total.single_evals + set_acc.set_evals;
    ev.set("evaluations", evals);
    ev.set("distinct_nontrivial", acc_total.single_matches + set_acc.set_nonempty);
    ev.set(
        "rule",
        format!(
            "layer 2: every token string of length <= {} over {:?} x 16 GlobBuilder option sets, matched against every path of length <= {} over {:?} (plus the same shapes with 0xFF for '-'), compared with an independent backtracking reference written from the documented syntax (plus 19 globs with classes that hold ranges and a '-' first, last or directly after a range, against every one-character path over printable ASCII; plus 24 globs with balanced, unbalanced, empty, nested and escaped braces x the option sets: accepted or rejected as documented, and matched against paths containing the metacharacters); layer 1: {} glob sets (every glob alone, one set of all globs for each of the option sets {:?}, one set mixing all 16 option sets, all ordered pairs{} over a 34-glob pool with several representatives per strategy (incl. `/**/lit` globs, which must not be served by a plain suffix test), all ordered pairs over a second 30-glob pool of prefix / suffix / extension / basename families whose literals nest inside one another; after every answer an empty set must clear the reused buffer) x the same paths, GlobSet::matches_candidate / matches_into / is_match compared with the answers of the member globs' own matchers. Non-trivial = the glob (or at least one member) matches the path; every (glob, options, path) and (set, path) is distinct by construction.",
            glen, GLOB_TOKENS, plen, std::str::from_utf8(PATH_BYTES).unwrap(), nsets, big_opts,
            if tier == Tier::Thorough { " and all triples" } else { "" },
        ),
    );
    ev.set("exhaustive", true);
    ev.set("globs", globs.len());
    ev.set("paths", paths.len());
    ev.set("glob_build_errors_agreeing_with_reference", acc_total.ref_errors_agree);
    ev.set("single_vs_reference_evaluations", acc_total.single_evals);
    ev.set("set_vs_members_evaluations", set_acc.set_evals);
    ev.set("sets", nsets);
    ev.set("strategy_population", json!(strategy_hits));
    ev.set(
        "samples",
        json!([
            {"glob": globs[globs.len() / 2], "opts": 6, "path": esc(&paths[paths.len() / 3])},
            {"glob": globs[globs.len() - 1], "opts": 15, "path": esc(&paths[paths.len() - 1])},
            {"set": sets[nbig - 1].0, "members": sets[nbig - 1].1.len(), "path": esc(&paths[paths.len() / 2])},
            {"set": sets[nbig + 40].0, "members": sets[nbig + 40].1.iter().map(|m| m.0.clone()).collect::<Vec<_>>()},
        ]),
    );
    ev.assume("regex-automata decides each member glob's regex correctly (the member matcher is the set's reference in layer 1)");
    ev.assume("globs and paths beyond the stated length bounds behave like the enumerated shapes");
    verdict.finish(ev)
}

/// Which glob-set strategy a glob is served by: globset logs the population
/// of its seven strategy tables when a set is built; a capturing logger reads
/// that line for a one-element set.
fn strategy_of(glob: &globset::Glob) -> String {
    crate::logcap::start();
    let mut b = GlobSetBuilder::new();
    b.add(glob.clone());
    let _ = b.build();
    let lines = crate::logcap::stop();
    for l in lines {
        if let Some(rest) = l.strip_prefix("built glob set; ") {
            let mut names = vec![];
            for part in rest.split(',') {
                let mut it = part.split_whitespace();
                let n: usize = it.next().and_then(|x| x.parse().ok()).unwrap_or(0);
                let name: Vec<&str> = it.collect();
                if n > 0 {
                    names.push(name.join("_"));
                }
            }
            names.sort();
            return names.join("+");
        }
    }
    "unknown".to_string()
}

fn replay(path: &str) -> ! {
    let text = std::fs::read_to_string(path).unwrap_or_else(|_| machinery_error("cannot read replay"));
    let v: serde_json::Value = serde_json::from_str(&text).unwrap_or_else(|_| machinery_error("bad replay"));
    let p = unesc(v["path"].as_str().unwrap_or(""));
    match v["kind"].as_str() {
        Some("single-vs-reference") => {
            let g = v["glob"].as_str().unwrap();
            let o = Opts::from_index(v["opts"].as_u64().unwrap() as usize);
            let a = o.builder(g).build().unwrap().compile_matcher().is_match(os(&p));
            let b = ref_parse(g, o, false).unwrap().is_match(&p);
            println!("glob={:?} opts={:?} path={:?} impl={} reference={}", g, o, esc(&p), a, b);
            std::process::exit(if a == b { 0 } else { 1 });
        }
        Some("set-vs-members") => {
            if let Some(members) = v["members"].as_array() {
                let mut b = GlobSetBuilder::new();
                let mut want = vec![];
                for (i, m) in members.iter().enumerate() {
                    let g = m[0].as_str().unwrap();
                    let o = Opts::from_index(m[1].as_u64().unwrap() as usize);
                    let glob = o.builder(g).build().unwrap();
                    if glob.compile_matcher().is_match(os(&p)) {
                        want.push(i);
                    }
                    b.add(glob);
                }
                let got = b.build().unwrap().matches(os(&p));
                println!("members={} path={:?} set={:?} members_say={:?}", members.len(), esc(&p), got, want);
                std::process::exit(if got == want { 0 } else { 1 });
            }
            println!("replay of a big set: rerun the check; path={:?}", esc(&p));
            std::process::exit(2)
        }
        _ => machinery_error("unknown replay kind"),
    }
}
