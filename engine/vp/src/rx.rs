//! Shared by C01 and C11: the pattern grammar, the builder option sets, the
//! *specification* HIR built independently from the documentation, and the
//! real `RegexMatcher` built the way `rg` builds it.

use grep_matcher::Matcher;
use grep_regex::{RegexMatcher, RegexMatcherBuilder};
use regex_syntax::hir::Hir;

use crate::core::*;

pub const TOKENS: &[&str] = &[
    "a", "b", "A", ".", "\\w", "\\s", "\\S", "[ab]", "[^a]", "[a\\n]", "\\b", "\\B", "^", "$", "é", "(?-u:\\xFF)",
    "*", "+", "?", "*?", "{2}", "{1,2}", "|", "(", ")", "(?P<n>",
];

pub fn token_patterns(maxlen: usize) -> Vec<String> {
    let n = seq_count(TOKENS.len(), maxlen);
    let mut idx = vec![];
    let mut out = vec![];
    for i in 0..n {
        seq_decode(TOKENS.len(), i, &mut idx);
        let s: String = idx.iter().map(|&t| TOKENS[t]).collect();
        // cheap syntactic pre-filter (balanced groups, no leading operator)
        if regex_syntax::ast::parse::Parser::new().parse(&s).is_ok() {
            out.push(s);
        }
    }
    out
}

/// The template family `X L Y L' Z` (exercises the inner-literal extractor's
/// cross / union / choose / limit branches).
pub fn template_patterns() -> Vec<String> {
    let xs = ["", "\\w+", "[a-z]", "(a|b)?", ".*", "\\s", "x?", "\\w{2}", "[ab]+"];
    let ls = ["ab", "abc", "a", "abcd", "(ab|cd)", "a?bc", "ab*c", "(abc){2}", "a{2,3}b", "[ab]c", "(?i:ab)c"];
    let zs = ["", "\\w", "$"];
    let mut out = vec![];
    for x in xs {
        for l in ls {
            for y in xs {
                for l2 in ls {
                    for z in zs {
                        out.push(format!("{}{}{}{}{}", x, l, y, l2, z));
                    }
                }
            }
        }
    }
    out
}

/// Patterns that sit on the inner-literal extractor's limits (repetition 10,
/// class size 10, literal length 100, 64 literals) and patterns with raw
/// control characters; run under every option set.
pub fn special_patterns() -> Vec<String> {
    let mut out = vec![];
    let pre = ["", "\\b", "\\w", "x", "\\bx"];
    let mid = [
        "a{9}", "a{10}", "a{11}", "-{11}", "-{10}", "[a-j]", "[a-k]", "(ab){10}", "(ab){11}", "a{10,}", "a{11,12}", "a{0,2}", "a{0,11}",
        "b{0,2}", "(ab|cd|ef|gh|ij|kl|mn|op|qr)", "[a-c][a-c][a-c][a-c]", "[a-c][a-c][a-c][a-c][a-c]",
    ];
    let post = ["", "y", "yz", "\\w", "y\\b"];
    for a in pre {
        for m in mid {
            for z in post {
                out.push(format!("{}{}{}", a, m, z).replace("\\\\", "\\"));
            }
        }
    }
    for n in [99usize, 100, 101] {
        out.push(format!("\\w{}\\w", "a".repeat(n)).replace("\\\\", "\\"));
    }
    // class ranges inside one three- or four-byte lead byte that cross a
    // 64-codepoint block (a middle byte of the encoding varies too), and two
    // two-byte ones for comparison
    for g in ["[ぁ-ん]", "[☀-♿]", "[😀-🙏]", "[Ⴀ-Ⴥ]", "[α-ω]", "[а-я]", "x[ぁ-ん]y", "[Ⴀ-Ⴥ]+"] {
        out.push(g.to_string());
    }
    // a group / repetition / alternation whose body is a concatenation of
    // literal-free elements, between two literals (the literal extractor must
    // not glue the literals together across it)
    for g in [
        "\\bab([a-z][A-Z])cd", "\\bab(?:[a-z][A-Z])cd", "\\bab([a-z][A-Z])+cd", "\\bab(?:\\w\\s|\\d\\d)cd", "\\bx(\\w\\s)y", "\\bab(\\w\\w)?cd",
        "\\wab([a-z][A-Z])cd\\w", "ab([a-z][A-Z])cd", "\\bab([a-z][A-Z])cd\\b",
    ] {
        out.push(g.replace("\\\\", "\\"));
    }
    // case-specific classes without any literal (smart case must stay
    // sensitive), with a lower-case literal, with an upper-case one
    for cs in ["\\p{Lu}", "\\p{Ll}", "[[:upper:]]", "[[:lower:]]+", "\\P{Lu}", "(?:\\p{Lu}|\\d)", "\\p{Lu}a", "\\p{Lu}A", "a[[:upper:]]", "[[:upper:]]\\b", "\\p{Lu}+$", "^\\p{Ll}"] {
        out.push(cs.replace("\\\\", "\\"));
    }
    for raw in ["a b", " a", "a #b", "a\tb", "a\nb", "a\rb", "\n", "\r", "a\r\nb", "[a\r]", "[a\n]b", "a\\rb", "a\\nb", "\\r", "(?:a|\r)b", "a\x00b", "\\x00", "[a\\x00]"] {
        out.push(raw.to_string());
    }
    out
}

/// String literals harvested from the repository's tests that parse as
/// regexes (a superset of "every pattern appearing in the tests").
pub fn harvested_patterns(limit: usize) -> Vec<String> {
    let mut files = vec![];
    fn walk(dir: &std::path::Path, out: &mut Vec<std::path::PathBuf>) {
        if let Ok(rd) = std::fs::read_dir(dir) {
            let mut ents: Vec<_> = rd.flatten().map(|e| e.path()).collect();
            ents.sort();
            for p in ents {
                if p.is_dir() {
                    if p.file_name().map_or(false, |n| n == "target" || n == ".git") {
                        continue;
                    }
                    walk(&p, out);
                } else if p.extension().map_or(false, |e| e == "rs") {
                    out.push(p);
                }
            }
        }
    }
    walk(std::path::Path::new("/repo/tests"), &mut files);
    walk(std::path::Path::new("/repo/crates/regex/src"), &mut files);
    walk(std::path::Path::new("/repo/crates/searcher/src"), &mut files);
    walk(std::path::Path::new("/repo/crates/printer/src"), &mut files);
    let lit = regex::Regex::new(r##"r#"([^"]{1,40})"#|r"([^"]{1,40})"|"((?:[^"\\\n]|\\.){1,40})""##).unwrap();
    let mut set = std::collections::BTreeSet::new();
    for f in files {
        let Ok(text) = std::fs::read_to_string(&f) else { continue };
        for c in lit.captures_iter(&text) {
            let s = if let Some(m) = c.get(1).or(c.get(2)) {
                m.as_str().to_string()
            } else {
                // undo the common Rust escapes
                let raw = c.get(3).unwrap().as_str();
                let mut out = String::new();
                let mut it = raw.chars();
                while let Some(ch) = it.next() {
                    if ch == '\\' {
                        match it.next() {
                            Some('n') => out.push('\n'),
                            Some('t') => out.push('\t'),
                            Some('r') => out.push('\r'),
                            Some('\\') => out.push('\\'),
                            Some('"') => out.push('"'),
                            Some('0') => out.push('\0'),
                            Some(o) => {
                                out.push('\\');
                                out.push(o);
                            }
                            None => out.push('\\'),
                        }
                    } else {
                        out.push(ch);
                    }
                }
                out
            };
            if s.len() >= 1 && s.len() <= 40 && !s.contains("\\A") && !s.contains("\\z") {
                set.insert(s);
            }
        }
    }
    set.into_iter().take(limit).collect()
}

#[derive(Clone, Copy, Debug, PartialEq, Eq, Hash, PartialOrd, Ord)]
pub enum Case {
    Sensitive,
    Insensitive,
    Smart,
}

#[derive(Clone, Copy, Debug, PartialEq, Eq, Hash, PartialOrd, Ord)]
pub enum Lt {
    Lf,
    Crlf,
    Nul,
    None,
}

#[derive(Clone, Copy, Debug, PartialEq, Eq, Hash, PartialOrd, Ord)]
pub struct Opts {
    pub lt: Lt,
    pub case: Case,
    pub word: bool,
    pub whole_line: bool,
    pub fixed: bool,
    pub unicode: bool,
    pub ban_nul: bool,
    /// the builder's ignore_whitespace (regex `x` flag)
    pub xmode: bool,
    /// the builder's dot_matches_new_line
    pub dotall: bool,
    /// the builder's swap_greed
    pub swap_greed: bool,
}

impl Opts {
    pub fn base(lt: Lt) -> Opts {
        Opts { lt, case: Case::Sensitive, word: false, whole_line: false, fixed: false, unicode: true, ban_nul: false, xmode: false, dotall: false, swap_greed: false }
    }
    pub fn show(&self) -> String {
        format!(
            "{:?}{}{}{}{}{}{}",
            self.lt,
            match self.case {
                Case::Sensitive => "",
                Case::Insensitive => " -i",
                Case::Smart => " -S",
            },
            if self.word { " -w" } else { "" },
            if self.whole_line { " -x" } else { "" },
            if self.fixed { " -F" } else { "" },
            if self.unicode { "" } else { " --no-unicode" },
            if self.ban_nul { " ban0" } else { "" },
        ) + if self.xmode { " x-mode" } else { "" } + if self.dotall { " dotall" } else { "" } + if self.swap_greed { " swap-greed" } else { "" }
    }
    /// The bytes that terminate a line (never part of a line's content /
    /// never allowed inside a match).
    pub fn term_bytes(&self) -> Vec<u8> {
        match self.lt {
            Lt::Lf => vec![b'\n'],
            Lt::Crlf => vec![b'\n'],
            Lt::Nul => vec![0],
            Lt::None => vec![],
        }
    }
    /// Bytes the matcher must never put inside a match.
    pub fn forbidden_in_match(&self) -> Vec<u8> {
        match self.lt {
            Lt::Lf => vec![b'\n'],
            Lt::Crlf => vec![b'\r', b'\n'],
            Lt::Nul => vec![0],
            Lt::None => vec![],
        }
    }
    /// Build the real matcher the way `rg` does (hiargs::matcher_rust).
    pub fn build(&self, patterns: &[&str]) -> Result<RegexMatcher, String> {
        let mut b = RegexMatcherBuilder::new();
        b.multi_line(true).unicode(self.unicode).octal(false).fixed_strings(self.fixed);
        match self.case {
            Case::Sensitive => b.case_insensitive(false),
            Case::Insensitive => b.case_insensitive(true),
            Case::Smart => b.case_smart(true),
        };
        if self.whole_line {
            b.whole_line(true);
        } else if self.word {
            b.word(true);
        }
        match self.lt {
            Lt::None => {}
            Lt::Lf => {
                b.line_terminator(Some(b'\n')).dot_matches_new_line(false);
            }
            Lt::Crlf => {
                b.line_terminator(Some(b'\n')).dot_matches_new_line(false);
                b.crlf(true);
            }
            Lt::Nul => {
                b.line_terminator(Some(b'\n')).dot_matches_new_line(false);
                b.line_terminator(Some(0));
            }
        }
        if self.ban_nul {
            b.ban_byte(Some(0));
        }
        // (set after the terminator arms, which switch dot-matches-new-line off
        // the way the command line does)
        if self.dotall {
            b.dot_matches_new_line(true);
        }
        b.ignore_whitespace(self.xmode).swap_greed(self.swap_greed);
        b.build_many(patterns).map_err(|e| e.to_string())
    }
}

/// Smart case as documented: insensitive iff the pattern has at least one
/// literal and no literal is uppercase. Decided on the AST.
fn smart_case_insensitive(pattern: &str) -> Option<bool> {
    use regex_syntax::ast::{self, Ast};
    let ast = ast::parse::Parser::new().parse(pattern).ok()?;
    fn visit(a: &Ast, any_lit: &mut bool, any_upper: &mut bool) {
        match a {
            Ast::Literal(l) => {
                *any_lit = true;
                if l.c.is_uppercase() {
                    *any_upper = true;
                }
            }
            Ast::ClassBracketed(c) => visit_set(&c.kind, any_lit, any_upper),
            Ast::Repetition(r) => visit(&r.ast, any_lit, any_upper),
            Ast::Group(g) => visit(&g.ast, any_lit, any_upper),
            Ast::Alternation(x) => x.asts.iter().for_each(|a| visit(a, any_lit, any_upper)),
            Ast::Concat(x) => x.asts.iter().for_each(|a| visit(a, any_lit, any_upper)),
            _ => {}
        }
    }
    fn visit_set(s: &ast::ClassSet, any_lit: &mut bool, any_upper: &mut bool) {
        match s {
            ast::ClassSet::Item(i) => visit_item(i, any_lit, any_upper),
            ast::ClassSet::BinaryOp(op) => {
                visit_set(&op.lhs, any_lit, any_upper);
                visit_set(&op.rhs, any_lit, any_upper);
            }
        }
    }
    fn visit_item(i: &ast::ClassSetItem, any_lit: &mut bool, any_upper: &mut bool) {
        match i {
            ast::ClassSetItem::Literal(l) => {
                *any_lit = true;
                if l.c.is_uppercase() {
                    *any_upper = true;
                }
            }
            ast::ClassSetItem::Range(r) => {
                *any_lit = true;
                if r.start.c.is_uppercase() || r.end.c.is_uppercase() {
                    *any_upper = true;
                }
            }
            ast::ClassSetItem::Bracketed(b) => visit_set(&b.kind, any_lit, any_upper),
            ast::ClassSetItem::Union(u) => u.items.iter().for_each(|i| visit_item(i, any_lit, any_upper)),
            _ => {}
        }
    }
    let (mut any_lit, mut any_upper) = (false, false);
    visit(&ast, &mut any_lit, &mut any_upper);
    Some(any_lit && !any_upper)
}

/// The specification of what the user asked for, as an HIR over a line's
/// content (terminator removed), written from the flag documentation.
pub fn spec_hir(patterns: &[&str], o: &Opts) -> Result<(Hir, String), String> {
    spec_hir_with(patterns, o, true)
}

/// `nul_anchors_at_lf`: with NUL as the line terminator, do `^` / `$` (and the
/// -x wrapper) still anchor at `\n` inside a record (what the regex flags
/// alone say, and what the implementation does), or only at the record's own
/// boundaries (what "line anchors" mean once the lines are NUL-terminated)?
/// The latter is the documented reading used by C01; the former is the
/// counterfactual switch of known finding `null-data-anchors-match-at-line-feed`.
pub fn spec_hir_with(patterns: &[&str], o: &Opts, nul_anchors_at_lf: bool) -> Result<(Hir, String), String> {
    // (returns the HIR and the specification's regex text)
    let alts: Vec<String> = patterns
        .iter()
        .map(|p| {
            if o.fixed {
                // a fixed string is its bytes, whatever the syntax flags: also
                // escape what the x flag would drop
                let lit: String = p.chars().map(|c| if c.is_whitespace() || c == '#' { format!("\\x{{{:X}}}", c as u32) } else { regex_syntax::escape(&c.to_string()) }).collect();
                format!("(?:{})", lit)
            } else {
                format!("(?:{})", p)
            }
        })
        .collect();
    let joined = alts.join("|");
    let ci = match o.case {
        Case::Sensitive => false,
        Case::Insensitive => true,
        Case::Smart => smart_case_insensitive(&joined).ok_or_else(|| "ast".to_string())?,
    };
    let text = if o.whole_line {
        format!("^(?:{})$", joined)
    } else if o.word {
        format!("(?:\\b{{start-half}})(?:{})(?:\\b{{end-half}})", joined)
    } else {
        joined
    };
    let hir = regex_syntax::ParserBuilder::new()
        .utf8(false)
        // (the specification is evaluated on one line's content at a time, so
        // "anchored at the record boundaries only" is "not multi-line")
        .multi_line(o.lt != Lt::Nul || nul_anchors_at_lf)
        .unicode(o.unicode)
        .case_insensitive(ci)
        .crlf(o.lt == Lt::Crlf)
        .dot_matches_new_line(o.dotall)
        .ignore_whitespace(o.xmode)
        .swap_greed(o.swap_greed)
        .octal(false)
        .build()
        .parse(&text)
        .map_err(|e| e.to_string())?;
    Ok((hir, text))
}

/// An independent engine for the specification (for witness confirmation).
pub fn spec_regex(hir: &Hir) -> Option<regex_automata::meta::Regex> {
    regex_automata::meta::Regex::builder()
        .configure(regex_automata::meta::Regex::config().utf8_empty(false))
        .build_from_hir(hir)
        .ok()
}

pub fn real_is_match(m: &RegexMatcher, line: &[u8]) -> bool {
    m.is_match(line).unwrap_or(false)
}
