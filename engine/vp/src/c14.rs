//! C14 — binary data never reaches the terminal unless text mode is
//! requested. E1 at two scales: the library (Searcher + Standard printer, tiny
//! roll buffers, every NUL placement, every read fragmentation) and the real
//! `rg` binary (implicit / explicit / stdin, default / --binary / --text,
//! mmap / no mmap, ten output modes; NULs around the 64 KiB sniff boundary).

use std::{collections::BTreeMap, io::Write, path::PathBuf, process::Command};

use grep_printer::StandardBuilder;
use grep_regex::RegexMatcherBuilder;
use grep_searcher::{BinaryDetection, MmapChoice, SearcherBuilder};
use serde_json::json;

use crate::{core::*, srch::*};

#[derive(Clone, Copy, Debug, PartialEq, Eq, Hash, PartialOrd, Ord)]
enum Bin {
    Quit,
    Convert,
    None,
}

/// Text-mode reference: "N:line" for every line containing `needle`
/// (or not, with invert), lines split at \n.
fn text_reference(content: &[u8], needle: &[u8], invert: bool) -> Vec<(u64, Vec<u8>)> {
    split_lines(content, b'\n')
        .iter()
        .enumerate()
        .filter(|(_, &(s, e))| {
            let l = strip(&content[s..e], Term::Lf);
            (l.windows(needle.len()).any(|w| w == needle)) != invert
        })
        .map(|(i, &(s, e))| (i as u64 + 1, strip(&content[s..e], Term::Lf).to_vec()))
        .collect()
}

#[derive(Debug)]
struct Parsed {
    lines: Vec<(u64, Vec<u8>)>,
    warning: bool,
    notice: bool,
    other: Vec<Vec<u8>>,
}

fn parse_standard(out: &[u8]) -> Parsed {
    let mut p = Parsed { lines: vec![], warning: false, notice: false, other: vec![] };
    for rec in out.split(|&b| b == b'\n') {
        if rec.is_empty() {
            continue;
        }
        if rec.starts_with(b"WARNING: stopped searching binary file after match") {
            p.warning = true;
            continue;
        }
        if rec.starts_with(b"binary file matches (found") {
            p.notice = true;
            continue;
        }
        let digits: Vec<u8> = rec.iter().copied().take_while(|b| b.is_ascii_digit()).collect();
        if !digits.is_empty() && (rec.get(digits.len()) == Some(&b':') || rec.get(digits.len()) == Some(&b'-')) {
            p.lines.push((String::from_utf8(digits.clone()).unwrap().parse().unwrap(), rec[digits.len() + 1..].to_vec()));
        } else {
            p.other.push(rec.to_vec());
        }
    }
    p
}

/// The statement's outcome table for standard output of one file.
/// Returns a description of the violation, if any.
fn judge_standard(content: &[u8], needle: &[u8], bin: Bin, reader: bool, stdout: &[u8]) -> Option<String> {
    let first_nul = content.iter().position(|&b| b == 0);
    let reference = text_reference(content, needle, false);
    if bin == Bin::None {
        let mut want = vec![];
        for (n, l) in reference.iter() {
            want.extend(format!("{}:", n).bytes());
            want.extend(l);
            want.push(b'\n');
        }
        return if stdout == &want[..] { None } else { Some("--text output differs from a search with detection disabled".into()) };
    }
    if stdout.contains(&0) {
        return Some("a NUL byte from the file reached the output".into());
    }
    let p = parse_standard(stdout);
    if !p.other.is_empty() {
        return Some(format!("unexpected output line {:?}", esc(&p.other[0])));
    }
    // printed lines: a prefix of the text-mode lines, all entirely before the NUL
    if p.lines.len() > reference.len() || p.lines[..] != reference[..p.lines.len()] {
        return Some("printed lines are not a prefix of the text-mode output".into());
    }
    if let Some(z) = first_nul {
        let lines = split_lines(content, b'\n');
        for (n, _) in p.lines.iter() {
            let (_, e) = lines[*n as usize - 1];
            if e > z && content[lines[*n as usize - 1].0..e].contains(&0) {
                return Some("a line containing the NUL was printed".into());
            }
            // The incremental reader examines every byte it reads, so under
            // quit-style detection the file is cut off *at* the NUL: nothing
            // that starts after it can be reported. (A slice strategy only
            // examines the sniffed prefix and the reported lines.)
            if reader && bin == Bin::Quit && lines[*n as usize - 1].0 > z {
                return Some("a line after the NUL was printed although the reader strategy examines every byte (the file must be cut off at the NUL)".into());
            }
        }
    } else {
        // no NUL at all: plain text behaviour
        if p.lines != reference || p.warning || p.notice {
            return Some("a file without NUL bytes was not searched as text".into());
        }
        return None;
    }
    match bin {
        Bin::Quit => {
            if p.notice {
                return Some("'binary file matches' notice for a traversed file".into());
            }
            if p.lines.is_empty() && p.warning {
                return Some("warning although no line was printed".into());
            }
            if !p.lines.is_empty() && p.lines.len() < reference.len() && !p.warning {
                return Some("output cut off without the warning".into());
            }
        }
        Bin::Convert => {
            if p.warning {
                return Some("'stopped searching' warning for an explicit / --binary file".into());
            }
            // a matching line free of NUL exists in every reading of the file
            let some_clean_match = reference.iter().any(|(_, l)| !l.contains(&0));
            // no reading of the file has a matching line
            let converted: Vec<u8> = content.iter().map(|&b| if b == 0 { b'\n' } else { b }).collect();
            let none_matches = reference.is_empty() && text_reference(&converted, needle, false).is_empty();
            if some_clean_match && p.lines.is_empty() && !p.notice {
                return Some("a line matches but there is neither a match nor a notice".into());
            }
            if none_matches && (!p.lines.is_empty() || p.notice) {
                return Some("no line matches but something was reported".into());
            }
        }
        Bin::None => {}
    }
    None
}

// ---------------------------------------------------------------------------
// Library level

fn lib_run(content: &[u8], bin: Bin, cap: usize, frag: usize, slice: bool, multi_line: bool, ctx: usize) -> Result<Vec<u8>, String> {
    let m = {
        let mut b = RegexMatcherBuilder::new();
        b.multi_line(true);
        if !multi_line {
            b.line_terminator(Some(b'\n'));
        }
        if bin != Bin::None {
            b.ban_byte(Some(0));
        }
        b.build(if multi_line { "m\\d?\\s?" } else { "m" }).map_err(|e| e.to_string())?
    };
    let mut sb = SearcherBuilder::new();
    sb.line_number(true)
        .multi_line(multi_line)
        .after_context(ctx)
        .before_context(ctx)
        .memory_map(MmapChoice::never())
        .binary_detection(match bin {
            Bin::Quit => BinaryDetection::quit(0),
            Bin::Convert => BinaryDetection::convert(0),
            Bin::None => BinaryDetection::none(),
        })
        .verif_buffer_capacity(Some(cap));
    let mut s = sb.build();
    let mut printer = StandardBuilder::new().build_no_color(vec![]);
    let res = if slice {
        s.search_slice(&m, content, printer.sink(&m))
    } else {
        let sizes: [usize; 0] = [];
        s.search_reader(&m, FragReader::new(content, &sizes, frag), printer.sink(&m))
    };
    res.map_err(|e| e.to_string())?;
    Ok(printer.into_inner().into_inner())
}

// ---------------------------------------------------------------------------

#[derive(Default)]
struct Acc {
    runs: u64,
    with_nul_runs: u64,
    cut_with_warning: u64,
    notices: u64,
    dropped: u64,
    disc: Vec<(String, serde_json::Value)>,
}

/// Second shape (thorough only): a non-matching first line, two adjacent
/// matching lines, a gap of two non-matching lines (so that context groups
/// and their separators exist), and a last matching line.
fn small_files_2() -> Vec<Vec<u8>> {
    let base = b"x1\nm2\nm3\nx4\nx5\nm6\n";
    let mut out = vec![base.to_vec()];
    for i in 0..=base.len() {
        let mut v = base.to_vec();
        v.insert(i, 0);
        out.push(v);
    }
    for i in 0..base.len() {
        let mut v = base.to_vec();
        v[i] = 0;
        out.push(v);
    }
    out
}

fn small_files(pairs: bool) -> Vec<Vec<u8>> {
    let base = b"m1\nx2\nm3\nx4\n";
    let mut out = vec![base.to_vec()];
    for i in 0..=base.len() {
        let mut v = base.to_vec();
        v.insert(i, 0);
        out.push(v);
    }
    // NUL replacing a byte (so that a line terminator can be the NUL's victim)
    for i in 0..base.len() {
        let mut v = base.to_vec();
        v[i] = 0;
        out.push(v);
    }
    if pairs {
        for i in 0..=base.len() {
            for j in i..=base.len() {
                let mut v = base.to_vec();
                v.insert(j, 0);
                v.insert(i, 0);
                out.push(v);
            }
        }
    }
    // without a final terminator
    out.push(b"m1\nx2\nm3\0".to_vec());
    out.push(b"m1\nx2\n\0m3".to_vec());
    out
}

fn big_files() -> Vec<(String, Vec<u8>)> {
    // 130 KiB of 100-byte lines; every 10th line matches; one line straddles 64 KiB
    let mut base = vec![];
    let mut i = 0;
    while base.len() < 133_000 {
        let tag = if i % 10 == 0 { "m" } else { "x" };
        let mut line = format!("{}{:05} ", tag, i).into_bytes();
        while line.len() < 99 {
            line.push(b'.');
        }
        line.push(b'\n');
        base.extend(line);
        i += 1;
    }
    let mut out = vec![("clean".to_string(), base.clone())];
    // (70_905 / 70_805: in the non-matching line one / two lines before the matching line 710)
    for &off in [0usize, 1, 65_535, 65_536, 65_537, 65_450, 65_599, 70_000, 70_905, 70_805, base.len() - 2].iter() {
        let mut v = base.clone();
        v[off] = 0;
        out.push((format!("nul@{}", off), v));
    }
    // the line straddling 64 KiB is a MATCHING line with its NUL after the boundary
    {
        let mut v = base.clone();
        let line_start = (65_536 / 100) * 100;
        v[line_start] = b'm';
        v[65_540] = 0;
        out.push(("straddling-match-line-nul@65540".to_string(), v));
        let mut v2 = base.clone();
        // the straddling line is a context line of a match just before it
        v2[line_start - 100] = b'm';
        v2[65_540] = 0;
        out.push(("straddling-context-line-nul@65540".to_string(), v2));
    }
    out
}

pub fn run(args: &Args) -> ! {
    if let Some(r) = &args.replay {
        replay(r);
    }
    let tier = args.tier;
    let mut ev = Evidence::new(args, "exploration");
    let mut verdict = Verdict::new("C14");
    let thorough = tier == Tier::Thorough;
    let mut files = small_files(thorough);
    if thorough {
        files.extend(small_files_2());
    }
    let ctxs: &[usize] = if thorough { &[0, 1, 2] } else { &[0, 1] };
    let caps: &[usize] = if thorough { &[1, 2, 3, 4, 5, 6, 7, 8] } else { &[1, 2, 3, 4, 6] };
    let frags: &[usize] = if thorough { &[1, 2, 3, 4, 5, 64] } else { &[1, 2, 3, 64] };
    // ---- library level ------------------------------------------------------
    let mut lib_cases: Vec<(usize, Bin, usize, usize, bool, bool, usize)> = vec![];
    for fi in 0..files.len() {
        for bin in [Bin::Quit, Bin::Convert, Bin::None] {
            for &ctx in ctxs {
                for ml in [false, true] {
                    lib_cases.push((fi, bin, 64, 64, true, ml, ctx));
                    for &cap in caps {
                        for &frag in frags {
                            lib_cases.push((fi, bin, cap, frag, false, ml, ctx));
                        }
                    }
                }
            }
        }
    }
    let mut lib = Acc::default();
    par_fold(
        lib_cases.len(),
        64,
        Acc::default,
        |acc, ci| {
            let (fi, bin, cap, frag, slice, ml, ctx) = lib_cases[ci];
            let content = &files[fi];
            acc.runs += 1;
            if content.contains(&0) {
                acc.with_nul_runs += 1;
            }
            let key = format!("lib | {:?} cap{} frag{} slice={} multiline={} ctx{} | {}", bin, cap, frag, slice, ml, ctx, esc(content));
            match lib_run(content, bin, cap, frag, slice, ml, ctx) {
                Err(e) => acc.disc.push((key, json!({"kind":"lib","error":e}))),
                Ok(out) => {
                    let verdict = if bin != Bin::None && out.contains(&0) {
                        Some("a NUL byte from the input reached the printer's output".to_string())
                    } else if ctx == 0 && !ml {
                        judge_standard(content, b"m", bin, !slice, &out)
                    } else if bin == Bin::None {
                        // text mode == detection disabled is an identity at library level
                        None
                    } else {
                        None
                    };
                    let p = parse_standard(&out);
                    if p.warning {
                        acc.cut_with_warning += 1;
                    }
                    if p.notice {
                        acc.notices += 1;
                    }
                    if content.contains(&0) && out.is_empty() {
                        acc.dropped += 1;
                    }
                    if let Some(why) = verdict {
                        if acc.disc.len() < 100 {
                            acc.disc.push((key, json!({"kind":"lib","why":why,"content":esc(content),"bin":format!("{:?}",bin),"cap":cap,"frag":frag,"slice":slice,"multi_line":ml,"ctx":ctx,"output":esc(&out)})));
                        }
                    }
                }
            }
        },
        |a| {
            lib.runs += a.runs;
            lib.with_nul_runs += a.with_nul_runs;
            lib.cut_with_warning += a.cut_with_warning;
            lib.notices += a.notices;
            lib.dropped += a.dropped;
            lib.disc.extend(a.disc);
        },
    );
    eprintln!("[c14] library level done at {:.1}s ({} runs)", ev.elapsed(), lib.runs);
    // ---- CLI level ----------------------------------------------------------
    let rg = build_rg();
    let scratch = Scratch::new("c14");
    let mut cli_files: Vec<(String, PathBuf, Vec<u8>)> = vec![];
    let mut small_for_cli: Vec<Vec<u8>> = small_files(false);
    if thorough {
        small_for_cli.extend(small_files_2());
    }
    for (i, c) in small_for_cli.iter().enumerate() {
        let dir = scratch.path.join(format!("s{}", i));
        std::fs::create_dir_all(&dir).unwrap();
        let p = dir.join("f");
        std::fs::File::create(&p).unwrap().write_all(c).unwrap();
        cli_files.push((format!("small{}", i), p, c.clone()));
    }
    for (name, c) in big_files() {
        let dir = scratch.path.join(format!("b-{}", name));
        std::fs::create_dir_all(&dir).unwrap();
        let p = dir.join("f");
        std::fs::File::create(&p).unwrap().write_all(&c).unwrap();
        cli_files.push((name, p, c));
    }
    let modes: Vec<(&str, Vec<&str>)> = vec![
        ("standard", vec!["-n"]),
        ("count", vec!["-c"]),
        ("files", vec!["-l"]),
        ("only", vec!["-n", "-o"]),
        ("after", vec!["-n", "-A1"]),
        ("before", vec!["-n", "-B1"]),
        ("context", vec!["-n", "-C2"]),
        ("multiline-before", vec!["-n", "-U", "-B1"]),
        ("passthru", vec!["-n", "--passthru"]),
        ("json", vec!["--json"]),
        ("multiline", vec!["-n", "-U"]),
        ("invert", vec!["-n", "-v"]),
        ("replace", vec!["-n", "-r", "X"]),
    ];
    let mut cli_cases = vec![];
    for fi in 0..cli_files.len() {
        for path_mode in ["implicit", "explicit", "stdin"] {
            for binflag in ["default", "--binary", "--text"] {
                for mmap in ["--mmap", "--no-mmap"] {
                    for mi in 0..modes.len() {
                        for pat in ["m", "never"] {
                            if pat == "never" && mi > 2 {
                                continue;
                            }
                            cli_cases.push((fi, path_mode, binflag, mmap, mi, pat));
                        }
                    }
                }
            }
        }
    }
    let cli = std::sync::Mutex::new(Acc::default());
    par_fold(
        cli_cases.len(),
        8,
        || (),
        |_, ci| {
            let (fi, path_mode, binflag, mmap, mi, pat) = cli_cases[ci];
            let (name, path, content) = &cli_files[fi];
            let mut cmd = Command::new(&rg);
            cmd.args(["--no-config", "--color", "never", "-I", "-j1"]).arg(mmap);
            if binflag != "default" {
                cmd.arg(binflag);
            }
            for a in modes[mi].1.iter() {
                cmd.arg(a);
            }
            cmd.arg(pat);
            let dir = path.parent().unwrap();
            match path_mode {
                "implicit" => {
                    cmd.arg(dir);
                }
                "explicit" => {
                    cmd.arg(path);
                }
                _ => {
                    cmd.arg("-");
                    cmd.stdin(std::fs::File::open(path).unwrap());
                }
            }
            let out = cmd.output().unwrap_or_else(|_| machinery_error("cannot run rg"));
            let bin = match (binflag, path_mode) {
                ("--text", _) => Bin::None,
                ("--binary", _) => Bin::Convert,
                (_, "implicit") => Bin::Quit,
                _ => Bin::Convert,
            };
            let mut why = None;
            if bin != Bin::None && out.stdout.contains(&0) {
                why = Some("a NUL byte from the file reached stdout without --text".to_string());
            } else if modes[mi].0 == "standard" {
                why = judge_standard(content, pat.as_bytes(), bin, mmap == "--no-mmap" || path_mode == "stdin", &out.stdout);
            } else if matches!(modes[mi].0, "after" | "before" | "context" | "multiline-before") && bin == Bin::Convert {
                // the outcome table's last clause also holds with context: an
                // explicit / --binary file is silent only if no line matches
                let reference = text_reference(content, pat.as_bytes(), false);
                let some_clean_match = reference.iter().any(|(_, l)| !l.contains(&0));
                let printed_match = out.stdout.split(|&b| b == b'\n').any(|l| {
                    let d = l.iter().take_while(|b| b.is_ascii_digit()).count();
                    d > 0 && l.get(d) == Some(&b':')
                });
                let notice = out.stdout.windows(27).any(|w| w == b"binary file matches (found ");
                if some_clean_match && !printed_match && !notice {
                    why = Some("a line matches but there is neither a match nor a 'binary file matches' notice".to_string());
                }
            }
            let mut acc = cli.lock().unwrap();
            acc.runs += 1;
            if content.contains(&0) {
                acc.with_nul_runs += 1;
            }
            if modes[mi].0 == "standard" {
                let p = parse_standard(&out.stdout);
                if p.warning {
                    acc.cut_with_warning += 1;
                }
                if p.notice {
                    acc.notices += 1;
                }
                if content.contains(&0) && out.stdout.is_empty() && pat == "m" {
                    acc.dropped += 1;
                }
            }
            if let Some(why) = why {
                if acc.disc.len() < 100 {
                    acc.disc.push((
                        format!("cli | {} {} {} {} | {} | {}", path_mode, binflag, mmap, modes[mi].0, pat, name),
                        json!({"kind":"cli","why":why,"file":name,"content": if content.len() < 100 { esc(content) } else { format!("{} bytes", content.len()) },
                               "path_mode":path_mode,"binary_flag":binflag,"mmap":mmap,"mode":modes[mi].0,"pattern":pat,
                               "stdout": esc(&out.stdout[..out.stdout.len().min(400)])}),
                    ));
                }
            }
        },
        |_| {},
    );
    let cli = cli.into_inner().unwrap();
    eprintln!("[c14] CLI level done at {:.1}s ({} runs)", ev.elapsed(), cli.runs);
    for (k, v) in lib.disc.iter().chain(cli.disc.iter()) {
        verdict.discrepancy(None, k, v.clone());
    }
    if lib.cut_with_warning == 0 || lib.notices == 0 || lib.dropped == 0 || cli.cut_with_warning == 0 || cli.notices == 0 || cli.dropped == 0 {
        machinery_error("C14: a mandatory coverage counter is zero (warning / notice / dropped)");
    }
    ev.set("evaluations", lib.runs + cli.runs);
    ev.set("distinct_nontrivial", lib.with_nul_runs + cli.with_nul_runs);
    ev.set("exhaustive", true);
    ev.set("library_runs", lib.runs);
    ev.set("cli_runs", cli.runs);
    ev.set("files_small", files.len());
    ev.set("files_cli", cli_files.len());
    ev.set("runs_cut_off_with_warning", lib.cut_with_warning + cli.cut_with_warning);
    ev.set("runs_with_binary_file_matches_notice", lib.notices + cli.notices);
    ev.set("runs_dropping_the_file", lib.dropped + cli.dropped);
    ev.set(
        "rule",
        "files: 'm1\\nx2\\nm3\\nx4\\n' with one NUL inserted at every offset, one NUL replacing every byte (thorough: also every pair of insertions), two unterminated variants; thorough also 'x1\\nm2\\nm3\\nx4\\nx5\\nm6\\n' (non-matching first line, adjacent matches, a two-line gap) with one NUL inserted at every offset / replacing every byte, at both levels; real scale: a 130 KiB file of 100-byte lines with a NUL at offsets {0,1,65450,65535,65536,65537,65599,70000,70805,70905 (inside the before-context window of the next match),len-2} and with the line straddling the 64 KiB sniff window being a matching line / a context line with its NUL beyond the window. Library level: Searcher + Standard printer, detection quit/convert/none x roll-buffer capacity {1,2,3,4,6} (thorough 1..8) x read size {1,2,3,64} (thorough {1,2,3,4,5,64}) x slice x multi-line x context 0/1 (thorough 0/1/2). CLI level: rg on every file x {implicit (directory), explicit path, stdin} x {default, --binary, --text} x {--mmap, --no-mmap} x {-n, -c, -l, -o, -A1, -B1, -C2, -U -B1, --passthru, --json, -U, -v, -r X} x pattern {m, never}. Oracle: no NUL byte on the output unless text mode; for standard output the statement's outcome table (printed lines = a prefix of the text-mode lines, all before the NUL; traversed: warning iff cut off after a printed line, never a notice; explicit/--binary: at most the notice, silence only if nothing matches; traversed + reader strategy: no printed line starts after the first NUL); --text == reference with detection disabled; in the context modes an explicit / --binary file with a NUL-free matching line must show a match or the notice. distinct_nontrivial = runs on files that contain a NUL.",
    );
    ev.set("samples", json!([{"file": "m1\\nx2\\n\\x00m3\\nx4\\n", "mode": "explicit --no-mmap -n", "expected": "1:m1 then 'binary file matches' notice or just the notice"}]));
    ev.assume("--null-data is outside the property (it disables detection by design)");
    drop(scratch);
    verdict.finish(ev)
}

fn replay(path: &str) -> ! {
    let text = std::fs::read_to_string(path).unwrap_or_else(|_| machinery_error("cannot read replay"));
    let v: serde_json::Value = serde_json::from_str(&text).unwrap_or_else(|_| machinery_error("bad replay"));
    if v["kind"] == "lib" {
        let content = unesc(v["content"].as_str().unwrap_or(""));
        let bin = match v["bin"].as_str() {
            Some("Quit") => Bin::Quit,
            Some("Convert") => Bin::Convert,
            _ => Bin::None,
        };
        let out = lib_run(
            &content,
            bin,
            v["cap"].as_u64().unwrap_or(1) as usize,
            v["frag"].as_u64().unwrap_or(1) as usize,
            v["slice"].as_bool().unwrap_or(false),
            v["multi_line"].as_bool().unwrap_or(false),
            v["ctx"].as_u64().unwrap_or(0) as usize,
        );
        println!("content {} -> output {:?}", esc(&content), out.as_ref().map(|o| esc(o)));
        let bad = out.map_or(true, |o| (bin != Bin::None && o.contains(&0)) || judge_standard(&content, b"m", bin, !v["slice"].as_bool().unwrap_or(false), &o).is_some());
        std::process::exit(if bad { 1 } else { 0 })
    }
    println!("cli replay: write the file described by {:?} and run rg {} {} {} <mode {}> {}", v["file"], v["path_mode"], v["binary_flag"], v["mmap"], v["mode"], v["pattern"]);
    std::process::exit(2)
}
