//! C08 — multi-threaded search output is a permutation of the
//! single-threaded output. E3 over the REAL `rg` binary: one process per
//! schedule, the walker's workers serialised by the cooperative replay
//! scheduler (RG_VERIF_SCHED), every interleaving of the hooked points within
//! the preemption bound, nine output modes; oracle = the same command at -j1.

use std::{
    collections::{BTreeMap, HashSet},
    path::{Path, PathBuf},
    process::Command,
};

use ignore::verif::{Abort, Event, Point, Step, Trace};
use serde_json::{json, Value};

use crate::{core::*, sched};

pub fn parse_trace(text: &str) -> Trace {
    let mut t = Trace::default();
    for l in text.lines() {
        let f: Vec<&str> = l.split_whitespace().collect();
        match f.first() {
            Some(&"workers") => t.workers = f[1].parse().unwrap_or(0),
            Some(&"step") => {
                let worker = if f[1] == "-" { usize::MAX } else { f[1].parse().unwrap_or(usize::MAX) };
                let point = match f[2] {
                    "St" => Point::Start,
                    "Pu" => Point::Push,
                    "Po" => Point::Pop,
                    "Sl" => Point::Steal,
                    "De" => Point::Deactivate,
                    "Ac" => Point::Activate,
                    "Iq" => Point::IsQuitNow,
                    "Qn" => Point::QuitNow,
                    "Id" => Point::Idle,
                    _ => Point::Exit,
                };
                let en = f[3].trim_matches(|c| c == '[' || c == ']');
                let enabled: Vec<usize> = en.split(',').filter(|x| !x.is_empty()).filter_map(|x| x.parse().ok()).collect();
                t.events.push(Event::Step(Step {
                    worker,
                    point,
                    enabled,
                    choice: f[4].parse().unwrap_or(0),
                    self_enabled: f[5] == "1",
                    retry: f[6] == "1",
                }));
            }
            Some(&"end") => {
                t.done = l.contains("done=true");
                t.abort = if l.contains("abort=Some(Deadlock)") {
                    Some(Abort::Deadlock)
                } else if l.contains("abort=Some(Horizon)") {
                    Some(Abort::Horizon)
                } else if l.contains("abort=Some(Diverged)") {
                    Some(Abort::Diverged)
                } else if l.contains("abort=Some(Panicked)") {
                    Some(Abort::Panicked)
                } else {
                    None
                };
            }
            _ => {}
        }
    }
    t
}

#[derive(Clone, Debug)]
struct ModeSpec {
    name: &'static str,
    args: Vec<&'static str>,
    /// how to split stdout into per-file blocks
    split: Split,
}

#[derive(Clone, Copy, Debug, PartialEq)]
enum Split {
    /// one line per file / per record with a "path:" or "path-" prefix
    PathPrefix,
    /// blocks separated by an empty line, first line the path
    Heading,
    /// whole lines are the blocks
    Lines,
    /// JSON messages grouped begin..end per file
    Json,
    /// no output expected to matter
    None,
}

fn modes() -> Vec<ModeSpec> {
    vec![
        ModeSpec { name: "default-no-heading", args: vec!["--no-heading", "-n"], split: Split::PathPrefix },
        ModeSpec { name: "heading", args: vec!["--heading", "-n"], split: Split::Heading },
        ModeSpec { name: "context", args: vec!["--no-heading", "-n", "-C1"], split: Split::PathPrefix },
        ModeSpec { name: "context-crlf", args: vec!["--no-heading", "-n", "-C1", "--crlf"], split: Split::PathPrefix },
        ModeSpec { name: "context-stats", args: vec!["--no-heading", "-n", "-C1", "--stats"], split: Split::PathPrefix },
        ModeSpec { name: "heading-stats", args: vec!["--heading", "-n", "--stats"], split: Split::Heading },
        ModeSpec { name: "count", args: vec!["-c"], split: Split::Lines },
        ModeSpec { name: "files-with-matches", args: vec!["-l"], split: Split::Lines },
        ModeSpec { name: "files-with-matches-hyperlinks", args: vec!["-l", "--color", "always", "--hyperlink-format", "file://{path}"], split: Split::Lines },
        ModeSpec { name: "files-without-match", args: vec!["--files-without-match"], split: Split::Lines },
        ModeSpec { name: "json", args: vec!["--json"], split: Split::Json },
        ModeSpec { name: "files", args: vec!["--files"], split: Split::Lines },
        ModeSpec { name: "quiet", args: vec!["-q"], split: Split::None },
    ]
}

fn strip_times(v: &mut Value) {
    match v {
        Value::Object(m) => {
            m.remove("elapsed");
            m.remove("elapsed_total");
            for (_, x) in m.iter_mut() {
                strip_times(x);
            }
        }
        Value::Array(a) => a.iter_mut().for_each(strip_times),
        _ => {}
    }
}

/// Split stdout into per-file blocks; Err if a file's output is not
/// contiguous or the framing is broken.
fn blocks(out: &[u8], split: Split) -> Result<(Vec<String>, Vec<String>), String> {
    let mut text = String::from_utf8_lossy(out).to_string();
    let mut blocks: Vec<String> = vec![];
    let mut extras: Vec<String> = vec![];
    // a --stats trailer (an empty line, then eight lines, the first of which
    // ends in " matches") is not a search result: it is compared apart from
    // the blocks (without its timings and "bytes printed", which counts the
    // separators only when the printer itself writes them), and what stands
    // before it is framed like any other output
    if split != Split::Json {
        let ls: Vec<&str> = text.lines().collect();
        if ls.len() >= 9 && ls[ls.len() - 8].ends_with(" matches") && ls[ls.len() - 9].is_empty() && ls[ls.len() - 1].ends_with(" seconds") {
            let keep: Vec<&str> = ls[ls.len() - 8..].iter().copied().filter(|l| !l.contains(" seconds") && !l.ends_with(" bytes printed")).collect();
            extras.push(format!("STATS {}", keep.join(" | ")));
            let tail: usize = ls[ls.len() - 9..].iter().map(|l| l.len() + 1).sum();
            let cut = text.len() - tail;
            if split == Split::PathPrefix && (text[..cut].ends_with("\n--\n") || text[..cut] == *"--\n") {
                return Err("a file separator after the last block (before the statistics)".into());
            }
            text.truncate(cut);
        }
    }
    match split {
        Split::None => {}
        Split::Lines => {
            for l in text.lines() {
                blocks.push(l.to_string());
            }
        }
        Split::PathPrefix => {
            let mut cur: Option<(String, String)> = None;
            let mut seen: HashSet<String> = HashSet::new();
            for raw in text.split_inclusive('\n') {
                let raw = raw.strip_suffix('\n').unwrap_or(raw);
                let l = raw.strip_suffix('\r').unwrap_or(raw);
                if l == "--" {
                    // (kept with its carriage return, if any: the separator's
                    // own terminator is part of the output)
                    extras.push(raw.to_string());
                    continue;
                }
                // path is everything up to the first ':' or '-' that is
                // followed by a digit run and another ':' or '-'
                let b = l.as_bytes();
                let mut path = None;
                for i in 0..b.len() {
                    if (b[i] == b':' || b[i] == b'-') && i + 1 < b.len() && b[i + 1].is_ascii_digit() {
                        let d = b[i + 1..].iter().take_while(|c| c.is_ascii_digit()).count();
                        if b.get(i + 1 + d) == Some(&b[i]) {
                            path = Some(l[..i].to_string());
                            break;
                        }
                    }
                }
                // binary-file notices carry the path but no line number
                if path.is_none() {
                    for marker in [": binary file matches (found ", ": WARNING: stopped searching binary file after match (found "] {
                        if let Some(i) = l.find(marker) {
                            path = Some(l[..i].to_string());
                        }
                    }
                }
                let Some(path) = path else { return Err(format!("line without a path prefix: {:?}", l)) };
                match cur.as_mut() {
                    Some((p, body)) if *p == path => {
                        body.push_str(l);
                        body.push('\n');
                    }
                    _ => {
                        if let Some((p, body)) = cur.take() {
                            blocks.push(body);
                            seen.insert(p);
                        }
                        if seen.contains(&path) {
                            return Err(format!("the results of {} are not contiguous", path));
                        }
                        cur = Some((path, format!("{}\n", l)));
                    }
                }
            }
            if let Some((_, body)) = cur {
                blocks.push(body);
            }
        }
        Split::Heading => {
            if text.is_empty() {
                return Ok((blocks, extras));
            }
            if text.starts_with('\n') || text.ends_with("\n\n") || text.contains("\n\n\n") {
                return Err("a file separator that is not between two blocks".into());
            }
            for b in text.split("\n\n") {
                blocks.push(b.trim_end_matches('\n').to_string());
            }
            let paths: Vec<&str> = blocks.iter().map(|b| b.lines().next().unwrap_or("")).collect();
            let uniq: HashSet<&&str> = paths.iter().collect();
            if uniq.len() != paths.len() {
                return Err("a file is reported twice".into());
            }
        }
        Split::Json => {
            let mut cur: Option<String> = None;
            for l in text.lines() {
                let mut v: Value = serde_json::from_str(l).map_err(|_| format!("not JSON: {:?}", l))?;
                strip_times(&mut v);
                let ty = v["type"].as_str().unwrap_or("").to_string();
                let s = v.to_string();
                match ty.as_str() {
                    "begin" => {
                        // (a file whose search failed has no end message: its
                        // messages form an unfinished block)
                        if let Some(c) = cur.take() {
                            blocks.push(format!("UNFINISHED {}", c));
                        }
                        cur = Some(format!("{}\n", s));
                    }
                    "end" => match cur.take() {
                        Some(mut c) => {
                            c.push_str(&s);
                            blocks.push(c);
                        }
                        None => return Err("end without begin".into()),
                    },
                    "summary" => extras.push(s),
                    _ => match cur.as_mut() {
                        Some(c) => {
                            c.push_str(&s);
                            c.push('\n');
                        }
                        None => return Err("match/context outside begin..end".into()),
                    },
                }
            }
            if let Some(c) = cur.take() {
                blocks.push(format!("UNFINISHED {}", c));
            }
        }
    }
    Ok((blocks, extras))
}

struct TreeSpec {
    name: &'static str,
    files: Vec<(&'static str, String)>,
    dangling: bool,
    /// run with `--pre ./pre.sh`: the script copies the file and exits 3 for
    /// files whose name contains "bad" (a search that fails after it has
    /// already produced results)
    failing_pre: bool,
    /// explicit path arguments (empty: search the current directory)
    paths: Vec<&'static str>,
    /// symbolic links (link, target relative to the tree) — the tree is then
    /// searched with -L
    links: Vec<(&'static str, &'static str)>,
    /// further arguments
    extra: Vec<&'static str>,
}

fn trees() -> Vec<TreeSpec> {
    let big = {
        let mut s = String::new();
        for i in 0..400 {
            s.push_str(&format!("line {} {}\n", i, if i % 97 == 3 { "needle" } else { "hay" }));
        }
        s
    };
    vec![
        TreeSpec {
            name: "flat3",
            files: vec![("a.txt", "needle one\nhay\nneedle two\n".into()), ("b.txt", "hay\nhay\n".into()), ("c.txt", "x\nneedle\ny\nz\n".into())],
            dangling: false,
            failing_pre: false,
            paths: vec![],
            links: vec![],
            extra: vec![],
        },
        TreeSpec {
            name: "two-dirs-unequal-sizes",
            files: vec![
                ("a.txt", "needle\n".into()),
                ("sub/big.txt", big),
                ("sub/c.txt", "hay\n".into()),
                ("sub/deep/d.txt", "hay\nneedle at the end".into()),
                ("e.txt", "".into()),
            ],
            dangling: false,
            failing_pre: false,
            paths: vec![],
            links: vec![],
            extra: vec![],
        },
        TreeSpec {
            name: "with-error",
            files: vec![("a.txt", "needle\n".into()), ("b.txt", "hay\n".into()), ("d/c.txt", "a needle\nb\n".into())],
            dangling: true,
            failing_pre: false,
            paths: vec![],
            links: vec![],
            extra: vec![],
        },
        TreeSpec {
            name: "failing-preprocessor",
            files: vec![
                ("bad1.txt", "needle in a file whose search fails\n".into()),
                ("good1.txt", "needle g1\n".into()),
                ("good2.txt", "hay\nneedle g2\n".into()),
                ("bad2.txt", "x\nneedle again\n".into()),
                ("good3.txt", "needle g3\n".into()),
                ("pre.sh", "#!/bin/sh\ncat \"$1\"\ncase \"$1\" in *bad*) exit 3;; esac\n".into()),
            ],
            dangling: false,
            failing_pre: true,
            paths: vec![],
            links: vec![],
            extra: vec![],
        },
        // more root paths than threads: the initial messages are dealt out to
        // the workers' deques round-robin
        TreeSpec {
            name: "more-roots-than-threads",
            files: vec![
                ("r1/a.txt", "needle r1\n".into()),
                ("r2/b.txt", "hay\n".into()),
                ("r3/c.txt", "x\nneedle r3\n".into()),
                ("r4/sub/d.txt", "needle r4\n".into()),
                ("e5.txt", "needle e5\nhay\n".into()),
            ],
            dangling: false,
            failing_pre: false,
            paths: vec!["r1", "r2", "r3", "r4", "e5.txt"],
            links: vec![],
            extra: vec![],
        },
        // an explicitly named file next to a traversed directory holding a
        // binary file: binary handling is per file (explicit vs implicit), not
        // per worker
        TreeSpec {
            name: "explicit-file-and-directory-with-binary",
            files: vec![
                ("top.txt", "needle top\n".into()),
                ("dir/bin1.dat", "needle\0binary one\n".into()),
                ("dir/t.txt", "needle t\n".into()),
                ("dir/bin2.dat", "x\nneedle\0binary two\n".into()),
                ("dir/u.txt", "hay\n".into()),
                ("other.txt", "needle other\n".into()),
            ],
            dangling: false,
            failing_pre: false,
            paths: vec!["top.txt", "dir", "other.txt"],
            links: vec![],
            extra: vec![],
        },
        // explicitly named binary files whose whole block is the "binary file
        // matches" notice: the separator belongs in front of such a block too
        TreeSpec {
            name: "explicit-binary-files-between-text-files",
            files: vec![
                ("a.txt", "x\nneedle a\ny\n".into()),
                ("b.bin", "zzz\0zzz\nneedle\n".into()),
                ("c.txt", "needle c\n".into()),
                ("d.bin", "\0\nneedle\n".into()),
            ],
            dangling: false,
            failing_pre: false,
            paths: vec!["a.txt", "b.bin", "c.txt", "d.bin"],
            links: vec![],
            extra: vec![],
        },
        // the size limit applies to what a followed link points to
        TreeSpec {
            name: "links-to-files-over-and-under-the-size-limit",
            files: vec![
                ("small.txt", "needle small\n".into()),
                ("big.txt", format!("needle big\n{}", "pad pad pad pad\n".repeat(20))),
                ("sub/x.txt", "needle x\n".into()),
                ("store/large.dat", format!("needle behind a link\n{}", "pad pad pad pad\n".repeat(20))),
                ("store/tiny.dat", "needle tiny\n".into()),
            ],
            dangling: false,
            failing_pre: false,
            paths: vec!["small.txt", "big.txt", "sub"],
            links: vec![("sub/to-large.txt", "../store/large.dat"), ("sub/to-tiny.txt", "../store/tiny.dat"), ("sub/deep/to-large2.txt", "../../store/large.dat")],
            extra: vec!["--max-filesize", "100"],
        },
    ]
}

struct Runner {
    rg: PathBuf,
    dir: PathBuf,
    trace_path: PathBuf,
}

struct Obs {
    stdout: Vec<u8>,
    status: i32,
    trace: Option<Trace>,
}

impl Runner {
    fn run(&self, mode: &ModeSpec, threads: usize, follow: bool, sort: bool, pre: bool, paths: &[&str], extra: &[&str], node: Option<&sched::Node>) -> Obs {
        let mut cmd = Command::new(&self.rg);
        cmd.current_dir(&self.dir).args(["--no-config", "--color", "never"]).arg(format!("-j{}", threads));
        if follow {
            cmd.arg("-L");
        }
        if pre {
            cmd.args(["--pre", "./pre.sh", "--pre-glob", "*.txt"]);
        }
        if sort {
            cmd.args(["--sort", "path"]);
        }
        cmd.args(extra);
        for a in mode.args.iter() {
            cmd.arg(a);
        }
        if mode.name != "files" {
            cmd.arg("needle");
        }
        cmd.args(paths);
        cmd.env_remove("RG_VERIF_SCHED").env_remove("RG_VERIF_TRACE");
        if let Some(n) = node {
            let spec = n.prefix.iter().map(|c| c.to_string()).collect::<Vec<_>>().join(",");
            let _ = std::fs::remove_file(&self.trace_path);
            cmd.env("RG_VERIF_SCHED", format!("{};horizon=20000", spec)).env("RG_VERIF_TRACE", &self.trace_path);
        }
        let out = cmd.output().unwrap_or_else(|_| machinery_error("cannot run rg"));
        let trace = node.and_then(|_| std::fs::read_to_string(&self.trace_path).ok()).map(|t| parse_trace(&t));
        Obs { stdout: out.stdout, status: out.status.code().unwrap_or(-1), trace }
    }
}

#[derive(Default)]
struct Acc {
    schedules: u64,
    steps: u64,
    orders: HashSet<u64>,
    configs: u64,
    known: u64,
    disc: Vec<(String, Value)>,
}

pub fn run(args: &Args) -> ! {
    if let Some(r) = &args.replay {
        replay(r);
    }
    let tier = args.tier;
    let mut ev = Evidence::new(args, "model_checking");
    let mut verdict = Verdict::new("C08");
    let rg = build_rg();
    let scratch = Scratch::new("c08");
    let ts = trees();
    for t in ts.iter() {
        let d = scratch.path.join(t.name);
        for (f, c) in t.files.iter() {
            let p = d.join(f);
            std::fs::create_dir_all(p.parent().unwrap()).unwrap_or_else(|_| machinery_error("scratch"));
            std::fs::write(&p, c).unwrap_or_else(|_| machinery_error("scratch"));
        }
        if t.dangling {
            let _ = std::os::unix::fs::symlink(d.join("nonexistent"), d.join("z.lnk"));
        }
        for (link, target) in t.links.iter() {
            let lp = d.join(link);
            std::fs::create_dir_all(lp.parent().unwrap()).unwrap_or_else(|_| machinery_error("scratch"));
            let _ = std::os::unix::fs::symlink(target, &lp);
        }
        if t.failing_pre {
            use std::os::unix::fs::PermissionsExt;
            let _ = std::fs::set_permissions(d.join("pre.sh"), std::fs::Permissions::from_mode(0o755));
        }
    }
    let ms = modes();
    // (tree, mode, threads, sorted)
    let mut configs: Vec<(usize, usize, usize, bool)> = vec![];
    for ti in 0..ts.len() {
        for mi in 0..ms.len() {
            if ts[ti].failing_pre && !(mi < 3 || ms[mi].name == "json") {
                continue;
            }
            for threads in tier.pick(vec![2], vec![2, 3]) {
                configs.push((ti, mi, threads, false));
            }
            if mi < 3 {
                configs.push((ti, mi, 2, true));
            }
        }
    }
    let pbound = tier.pick(1, 2);
    let total = std::sync::Mutex::new(Acc::default());
    par_fold(
        configs.len(),
        1,
        || (),
        |_, ci| {
            let (ti, mi, threads, sorted) = configs[ci];
            let t = &ts[ti];
            let mode = &ms[mi];
            let runner = Runner { rg: rg.clone(), dir: scratch.path.join(t.name), trace_path: scratch.path.join(format!("trace-{}", ci)) };
            let mut acc = Acc::default();
            acc.configs += 1;
            let reference = runner.run(mode, 1, t.dangling || !t.links.is_empty(), sorted, t.failing_pre, &t.paths, &t.extra, None);
            let ref_blocks = blocks(&reference.stdout, mode.split);
            let mut report = |acc: &mut Acc, why: String, node: &sched::Node, o: &Obs| {
                if acc.disc.len() < 5 {
                    acc.disc.push((
                        format!("{} | {} | -j{}{} | {}", t.name, mode.name, threads, if sorted { " --sort path" } else { "" }, why),
                        json!({"kind":"schedule","tree":t.name,"mode":mode.name,"threads":threads,"sorted":sorted,"why":why,"prefix":node.prefix,
                               "stdout":String::from_utf8_lossy(&o.stdout[..o.stdout.len().min(600)]),"status":o.status,
                               "reference_stdout":String::from_utf8_lossy(&reference.stdout[..reference.stdout.len().min(600)]),"reference_status":reference.status}),
                    ));
                }
            };
            let mut stack = vec![sched::Node::root()];
            let mut budget = tier.pick(400, 6000);
            while let Some(node) = stack.pop() {
                if budget == 0 {
                    break;
                }
                budget -= 1;
                let o = runner.run(mode, threads, t.dangling || !t.links.is_empty(), sorted, t.failing_pre, &t.paths, &t.extra, Some(&node));
                acc.schedules += 1;
                let Some(trace) = &o.trace else {
                    // --sort forces a single thread: no parallel walk, no trace
                    if sorted {
                        if o.stdout != reference.stdout || o.status != reference.status {
                            report(&mut acc, "with --sort the output differs from the single-threaded output".into(), &node, &o);
                        }
                        break;
                    }
                    report(&mut acc, "no schedule trace was written (the walk did not end normally)".into(), &node, &o);
                    continue;
                };
                acc.steps += trace.steps().count() as u64;
                match trace.abort {
                    Some(Abort::Diverged) => machinery_error("C08: replay diverged"),
                    Some(a) => {
                        report(&mut acc, format!("the walk did not terminate: {}", sched::abort_name(Some(a))), &node, &o);
                        continue;
                    }
                    None => {}
                }
                acc.orders.insert(hash64(&o.stdout));
                // oracle
                let mut why = None;
                let mut known = false;
                if o.status != reference.status {
                    why = Some(format!("exit status {} vs {} single-threaded", o.status, reference.status));
                } else if sorted {
                    if o.stdout != reference.stdout {
                        why = Some("with --sort the output differs from the single-threaded output".to_string());
                    }
                } else {
                    match (blocks(&o.stdout, mode.split), &ref_blocks) {
                        (Err(e), _) => why = Some(e),
                        (_, Err(e)) => machinery_error(&format!("C08: the single-threaded output does not parse: {}", e)),
                        (Ok((mut b, mut x)), Ok((rb, rx))) => {
                            let (mut rb, mut rx) = (rb.clone(), rx.clone());
                            if t.failing_pre {
                                // whether the partial results of a file whose
                                // search FAILED are shown is error handling
                                // (C15/C18), not judged here: drop its block
                                b.retain(|blk| !blk.contains("bad"));
                                rb.retain(|blk| !blk.contains("bad"));
                            }
                            b.sort();
                            rb.sort();
                            x.sort();
                            rx.sort();
                            if b != rb {
                                why = Some("the per-file blocks are not a permutation of the single-threaded blocks".to_string());
                            } else if x != rx && mode.split != Split::Json && !t.failing_pre {
                                // counterfactual switch of known finding
                                // `parallel-file-separator-ignores-line-terminator`:
                                // the separators BETWEEN files (one less than
                                // there are blocks) end in a bare \n
                                let mut cf = rx.clone();
                                let mut n = b.len().saturating_sub(1);
                                for e in cf.iter_mut() {
                                    if n > 0 && e == "--\r" {
                                        *e = "--".to_string();
                                        n -= 1;
                                    }
                                }
                                cf.sort();
                                if mode.name == "context-crlf" && n == 0 && cf == x {
                                    known = true;
                                }
                                why = Some("separators differ from the single-threaded output".to_string());
                            }
                        }
                    }
                }
                if let Some(w) = why {
                    if known {
                        acc.known += 1;
                        if acc.known == 1 {
                            report(&mut acc, format!("KNOWN {}", w), &node, &o);
                        }
                    } else {
                        report(&mut acc, w, &node, &o);
                    }
                }
                stack.extend(sched::children(&node, trace, pbound, 0));
            }
            let mut tt = total.lock().unwrap();
            tt.schedules += acc.schedules;
            tt.steps += acc.steps;
            tt.configs += acc.configs;
            tt.orders.extend(acc.orders);
            tt.disc.extend(acc.disc);
        },
        |_| {},
    );
    let total = total.into_inner().unwrap();
    for (k, v) in total.disc.iter() {
        let f = if k.contains("| KNOWN ") { Some("parallel-file-separator-ignores-line-terminator") } else { None };
        verdict.discrepancy(f, k, v.clone());
    }
    if total.orders.len() < 10 {
        machinery_error("C08: the explored schedules produced fewer than 10 distinct outputs (vacuous)");
    }
    ev.set("states", total.orders.len());
    ev.set("transitions", total.steps);
    ev.set("traces_validated_against_impl", total.schedules);
    ev.set("schedules", total.schedules);
    ev.set("evaluations", total.schedules);
    ev.set("distinct_nontrivial", total.orders.len());
    ev.set("configurations", total.configs);
    ev.set("preemption_bound", pbound);
    ev.set(
        "rule",
        format!(
            "Every execution is the REAL rg binary (built with ignore/verif-hooks) on a scratch tree, its parallel walker's workers serialised by the cooperative replay scheduler installed from RG_VERIF_SCHED; explored: every interleaving of the hooked walker points with at most {} preemption(s) (budget {} schedules per configuration), for 8 trees (one of two text files and two explicitly named binary files whose whole output is the binary notice; one with symbolic links to files above and below --max-filesize, searched with -L; 3-5 files of unequal size in 1-3 directories; one with a dangling symlink under -L; one searched through a --pre command that fails for two files after producing output; one given as five root paths, more than there are threads; one given as an explicit file, a directory holding two binary files, and another explicit file) x 13 output modes (no-heading, --heading, -C1, -C1 --crlf, -C1 --stats, --heading --stats, -c, -l with colours and hyperlinks, -l, --files-without-match, --json, --files, -q) x threads {:?}, plus --sort path. Oracle: the same command at -j1: same exit status; stdout split into per-file blocks by the mode's own framing is a permutation of the single-threaded blocks, each file contiguous and once, separators exactly between blocks; with --sort byte-identical. states = distinct outputs produced; transitions = scheduling decisions executed; traces_validated_against_impl = schedules executed.",
            pbound, tier.pick(400, 6000), tier.pick(vec![2], vec![2, 3])
        ),
    );
    ev.set("samples", json!([{"tree": "two-dirs-unequal-sizes", "mode": "heading", "threads": 2, "prefix": [0, 0, 1]}]));
    ev.assume("the visitor (search + print of one file) runs between two hooked points and is atomic under the scheduler; termcolor's BufferWriter lock is trusted");
    drop(scratch);
    verdict.finish(ev)
}

fn replay(path: &str) -> ! {
    let text = std::fs::read_to_string(path).unwrap_or_else(|_| machinery_error("cannot read replay"));
    let v: Value = serde_json::from_str(&text).unwrap_or_else(|_| machinery_error("bad replay"));
    println!("tree {} mode {} -j{} sorted {} prefix {}\n why: {}\n stdout:\n{}\n reference (-j1):\n{}", v["tree"], v["mode"], v["threads"], v["sorted"], v["prefix"], v["why"], v["stdout"].as_str().unwrap_or(""), v["reference_stdout"].as_str().unwrap_or(""));
    let _ = (BTreeMap::<u8, u8>::new(), Path::new(""));
    std::process::exit(2)
}
